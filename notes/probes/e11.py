import numpy as np, warnings, itertools, time
warnings.filterwarnings('ignore')
import pandas as pd
from gemdat.transitions import _calculate_transition_events
from gemdat.jumps import _generic_transitions_to_jumps
class T: pass
def model_jumps(states):
    out=[]
    for a in range(states.shape[1]):
        prev=None; prevt=None
        for t,s in enumerate(states[:,a]):
            if s==-1: continue
            if prev is not None and s!=prev:
                out.append((a,prev,s,prevt,t))
            prev=s; prevt=t
    return out
def code_jumps(states, inner, mr=0):
    try:
        ev=_calculate_transition_events(atom_sites=states, atom_inner_sites=inner)
    except Exception as e:
        return ('EVEXC', type(e).__name__)
    tr=T(); tr.events=ev
    try:
        j=_generic_transitions_to_jumps(tr, minimal_residence=mr)
    except ValueError as e:
        return []
    return [tuple(int(x) for x in r) for r in j[['atom index','start site','destination site','start time','stop time']].to_numpy()]
# exhaustive default: 1 atom, symbols -1,0,1,2 length up to 7
bad=0; n=0; t0=time.time()
for L in range(2,8):
    for h in itertools.product([-1,0,1,2], repeat=L):
        st=np.array(h)[:,None]
        if len(set(h))==1: continue
        n+=1
        c=code_jumps(st, st.copy()); m=model_jumps(st)
        if c!=m:
            bad+=1
            if bad<5: print("MISMATCH", h, c, m)
print(n, bad, time.time()-t0)
