import numpy as np, warnings, os, time, io, contextlib, shutil
warnings.filterwarnings('ignore')
from gemdat import Trajectory
exec(open('e7.py').read().split("lat = np.array")[0])
shutil.rmtree('vr2',ignore_errors=True); os.mkdir('vr2')
lat = np.array([[6,0,0],[1,7,0],[0.5,0.3,8.0]])
rng=np.random.default_rng(1)
frames = [rng.random((4,3)) for _ in range(5)]
write_vasprun('vr2/vasprun.xml', lat, ['Li','Li','S','P'], frames)
ref = Trajectory.from_vasprun('vr2/vasprun.xml')
cache=[f for f in os.listdir('vr2') if f.endswith('.cache')][0]
full=open('vr2/'+cache,'rb').read(); print(len(full))
bad=0; t0=time.time()
for k in range(len(full)):
    open('vr2/'+cache,'wb').write(full[:k])
    with contextlib.redirect_stdout(io.StringIO()):
        try: t=Trajectory.from_vasprun('vr2/vasprun.xml')
        except Exception as e: bad+=1; print("EXC",k,type(e).__name__, e); continue
    if not (isinstance(t,Trajectory) and np.array_equal(t.positions,ref.positions)): bad+=1
    if open('vr2/'+cache,'rb').read()!=full: bad+=1
print("bad",bad,time.time()-t0)
# lammps timing
t0=time.time()
for i in range(20):
    for f in os.listdir('lmp'):
        if f.endswith('.cache'): os.remove('lmp/'+f)
    Trajectory.from_lammps(coords_file='lmp/coords.xyz', data_file='lmp/data.txt', temperature=300, time_step=2)
print("lammps parse",(time.time()-t0)/20)
