import numpy as np, warnings, traceback, os, time
warnings.filterwarnings('ignore')
from gemdat import Trajectory

def structure_xml(name, lat, frac):
    nm = f' name="{name}"' if name else ''
    rec = np.linalg.inv(lat).T
    s = [f'<structure{nm}>', '<crystal>', '<varray name="basis">']
    s += ['<v> %.8f %.8f %.8f </v>'%tuple(r) for r in lat]
    s += ['</varray>', '<i name="volume"> %.8f </i>'%abs(np.linalg.det(lat)), '<varray name="rec_basis">']
    s += ['<v> %.8f %.8f %.8f </v>'%tuple(r) for r in rec]
    s += ['</varray>', '</crystal>', '<varray name="positions">']
    s += ['<v> %.8f %.8f %.8f </v>'%tuple(r) for r in frac]
    s += ['</varray>', '</structure>']
    return '\n'.join(s)

def write_vasprun(fn, lat, symbols, frames, potim=2.0, tebeg=300.0):
    out = ['<?xml version="1.0" encoding="ISO-8859-1"?>', '<modeling>',
    '<generator><i name="program" type="string">vasp </i><i name="version" type="string">5.4.4  </i></generator>',
    '<incar><i type="int" name="IBRION"> 0</i><i name="POTIM"> %.4f</i><i name="TEBEG"> %.4f</i><i type="int" name="NSW"> %d</i></incar>'%(potim, tebeg, len(frames)),
    '<parameters><separator name="ionic"><i type="int" name="NSW"> %d</i><i type="int" name="IBRION"> 0</i><i name="POTIM"> %.4f</i></separator><separator name="electronic"><i type="int" name="NELM"> 60</i></separator><separator name="ionic md"><i name="TEBEG"> %.4f</i><i name="TEEND"> %.4f</i></separator></parameters>'%(len(frames), potim, tebeg, tebeg),
    '<atominfo>', '<atoms> %d </atoms>'%len(symbols), '<types> %d </types>'%len(set(symbols)),
    '<array name="atoms"><dimension dim="1">ion</dimension><field type="string">element</field><field type="int">atomtype</field><set>']
    types = []
    for s in symbols:
        if s not in types: types.append(s)
    for s in symbols:
        out.append('<rc><c>%-2s</c><c>%4d</c></rc>'%(s, types.index(s)+1))
    out += ['</set></array>',
     '<array name="atomtypes"><dimension dim="1">type</dimension><field type="int">atomspertype</field><field type="string">element</field><field>mass</field><field>valence</field><field type="string">pseudopotential</field><set>']
    for tp in types:
        out.append('<rc><c>%4d</c><c>%-2s</c><c> 1.0</c><c> 1.0</c><c>  PAW_PBE %s 01Jan2000 </c></rc>'%(symbols.count(tp), tp, tp))
    out += ['</set></array>', '</atominfo>']
    out.append(structure_xml('initialpos', lat, frames[0]))
    for fr in frames:
        out.append('<calculation>')
        out.append(structure_xml('', lat, fr))
        out.append('<energy><i name="e_fr_energy"> -1.0 </i><i name="e_wo_entrp"> -1.0 </i><i name="e_0_energy"> -1.0 </i></energy>')
        out.append('</calculation>')
    out.append(structure_xml('finalpos', lat, frames[-1]))
    out.append('</modeling>')
    open(fn,'w').write('\n'.join(out))

lat = np.array([[6,0,0],[1,7,0],[0.5,0.3,8.0]])
rng=np.random.default_rng(1)
frames = [rng.random((4,3)) for _ in range(5)]
write_vasprun('vr/vasprun.xml', lat, ['Li','Li','S','P'], frames)
t0=time.time()
t = Trajectory.from_vasprun('vr/vasprun.xml')
print(time.time()-t0, t.species, t.positions.shape, t.time_step, t.metadata, os.listdir('vr'))
print(np.abs(t.positions - np.array(frames)%1).max())
t = Trajectory.from_vasprun('vr/vasprun.xml', constant_lattice=False)
print(t.constant_lattice, os.listdir('vr'))
