import numpy as np, warnings, traceback
warnings.filterwarnings('ignore')
from pymatgen.core import Lattice, Structure, Species, Element
from gemdat import Trajectory
from gemdat.metrics import TrajectoryMetrics
rng=np.random.default_rng(0)
lat = Lattice.from_parameters(6,7,8,70,80,100)
nF,nA=30,5
steps = rng.normal(0,0.05,(nF,nA,3)); steps[0]=0
base = rng.random((nA,3))
unw = base + np.cumsum(steps,axis=0)
sp = [Species('Li')]*3+[Species('S')]*2
t = Trajectory(species=sp, coords=unw%1, lattice=lat, time_step=2e-15, metadata={'temperature':300})
# MSD brute
cart = lat.get_cartesian_coords(unw - base)
msd = t.mean_squared_displacement()
ref = np.zeros((nA,nF))
for tau in range(nF):
    d = cart[tau:] - cart[:nF-tau]
    ref[:,tau] = (d**2).sum(-1).mean(0)
print("msd err", np.abs(msd-ref).max())
d = t.distances_from_base_position()
print("dist err", np.abs(d - np.linalg.norm(cart,axis=-1).T).max())
m = TrajectoryMetrics(t)
print(m.tracer_diffusivity(dimensions=3), (np.linalg.norm(cart[-1],axis=-1)**2).mean()*1e-20/(6*nF*2e-15))
# drift
t2 = t.apply_drift_correction(fixed_species='S')
print("drift after", np.abs(t2.drift(fixed_species='S')).max())
t3 = t2.apply_drift_correction(fixed_species='S')
print("idempotent", np.abs(t3.positions - t2.positions).max())
print("first frame", np.abs(t2.positions[0]-t.positions[0]).max(), t2.time_step, t2.metadata, t2.species==t.species)
t4 = t.apply_drift_correction(floating_species='Li')
print("floating==fixed", np.abs(t4.positions - t2.positions).max())
t5 = t.apply_drift_correction(floating_species=['Li'])
print(np.abs(t5.positions - t2.positions).max())
# rigid drift
dr = np.cumsum(rng.normal(0,0.03,(nF,1,3)),axis=0); dr[0]=0
tt = Trajectory(species=sp, coords=(unw+dr)%1, lattice=lat, time_step=2e-15, metadata={'temperature':300})
t6 = tt.apply_drift_correction(fixed_species='S')
x = (t6.positions - t2.positions); x -= np.round(x)
print("rigid inv", np.abs(x).max())
# com
com = t.center_of_mass(); print(com.species, com.positions.shape)
print(m.haven_ratio(), m.tracer_diffusivity_center_of_mass())
print(m.attempt_frequency(), m.vibration_amplitude(), m.amplitudes().sum(), d[:,-1].sum())
