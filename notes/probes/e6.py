import numpy as np, warnings, traceback, os
warnings.filterwarnings('ignore')
from pymatgen.core import Lattice, Structure
from pymatgen.io.lammps.data import LammpsData
from gemdat import Trajectory
lat = Lattice.from_parameters(6,7,8,90,90,90)
s = Structure(lat, ['Li','Li','S','P'], [[0.1,0.1,0.1],[0.5,0.5,0.5],[0.2,0.7,0.3],[0.9,0.1,0.6]])
ld = LammpsData.from_structure(s, atom_style='atomic')
ld.write_file('lmp/data.txt')
print(open('lmp/data.txt').read())
print(ld.structure.lattice)
# xyz
rng=np.random.default_rng(1)
with open('lmp/coords.xyz','w') as f:
    for fr in range(3):
        f.write("4\nframe %d\n"%fr)
        for sym, fc in zip(['Li','Li','S','P'], s.frac_coords + rng.normal(0,0.01,(4,3))):
            c = lat.get_cartesian_coords(fc)
            f.write("%s %.6f %.6f %.6f\n"%(sym,*c))
t = Trajectory.from_lammps(coords_file='lmp/coords.xyz', data_file='lmp/data.txt', temperature=300, time_step=2)
print(t.species, t.positions.shape, t.coords.dtype, os.listdir('lmp'))
t2 = Trajectory.from_lammps(coords_file='lmp/coords.xyz', data_file='lmp/data.txt', temperature=300, time_step=2)
print(np.array_equal(t.positions, t2.positions))
# type_mapping
with open('lmp/coords2.xyz','w') as f:
    for fr in range(3):
        f.write("4\nframe %d\n"%fr)
        for sym, fc in zip(['1','1','2','3'], s.frac_coords):
            c = lat.get_cartesian_coords(fc)
            f.write("%s %.6f %.6f %.6f\n"%(sym,*c))
ta = Trajectory.from_lammps(coords_file='lmp/coords2.xyz', data_file='lmp/data.txt', temperature=300, time_step=2, type_mapping={'1':'Li','2':'S','3':'P'})
tb = Trajectory.from_lammps(coords_file='lmp/coords2.xyz', data_file='lmp/data.txt', temperature=300, time_step=2, type_mapping={'1':'Na','2':'S','3':'P'})
print(ta.species, tb.species)
