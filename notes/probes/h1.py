import time, json, hypothesis
from hypothesis import given, settings, strategies as st, seed, HealthCheck, Phase
import numpy as np
last={}
coords = st.lists(st.lists(st.lists(st.floats(-1,2,allow_nan=False,width=64),min_size=3,max_size=3),min_size=4,max_size=4),min_size=12,max_size=12)
n=0
@seed(5)
@settings(max_examples=2000, deadline=None, database=None, suppress_health_check=list(HealthCheck))
@given(coords)
def t(c):
    global n; n+=1
    last['c']=c
    a=np.array(c)
    assert not (a[3,2,1]>1.5 and a[0,0,0]<0)
t0=time.time()
try: t()
except AssertionError: pass
print(n, time.time()-t0, np.array(last['c'])[3,2,1], np.array(last['c'])[0,0,0], np.count_nonzero(np.array(last['c'])))
# numpy arrays strategy speed
from hypothesis.extra import numpy as hnp
n=0
@seed(5)
@settings(max_examples=2000, deadline=None, database=None, suppress_health_check=list(HealthCheck))
@given(hnp.arrays(np.float64,(12,4,3),elements=st.floats(-1,2,width=64)))
def t2(a):
    global n; n+=1
t0=time.time(); t2(); print("hnp",n,time.time()-t0)
