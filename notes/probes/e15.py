import numpy as np
from gemdat.utils import fft_autocorrelation
rng=np.random.default_rng(0)
for n in [2,3,4,5,8,9]:
    v=rng.normal(size=(n,2,3))
    ac=fft_autocorrelation(v)
    ref=np.zeros((2,n))
    for tau in range(n):
        ref[:,tau]=(v[tau:]*v[:n-tau]).sum(-1).mean(0)
    ref/=ref[:,[0]]
    print(n, np.abs(ac-ref).max())
# fixed version
def fixed(coords):
    n_times, n_particles, n_coordinates = coords.shape
    ac=np.zeros((n_particles,n_times)); norm=np.arange(n_times,0,-1)
    for c in range(n_coordinates):
        s=coords[:,:,c]
        f=np.fft.rfft(s,n=2*n_times-1,axis=0)
        p=np.abs(f)**2
        a=np.fft.irfft(p,n=2*n_times-1,axis=0)[:n_times]
        ac+=a.T/norm
    return ac/ac[:,0,None]
v=rng.normal(size=(9,2,3))
ref=np.zeros((2,9))
for tau in range(9):
    ref[:,tau]=(v[tau:]*v[:9-tau]).sum(-1).mean(0)
ref/=ref[:,[0]]
print("fixed", np.abs(fixed(v)-ref).max())
