import sys
sys.path.insert(0,'/tmp/scratch/deps')
import atheris
with atheris.instrument_imports(include=['gemdat.transitions','gemdat.jumps']):
    import gemdat.transitions, gemdat.jumps
import numpy as np
n=0
def one(data):
    global n
    n+=1
    if len(data)<3: return
    st=np.frombuffer(data[:12],dtype=np.uint8).astype(int)%4-1
    st=st[:,None]
    if len(set(st.ravel()))<2: return
    gemdat.transitions._calculate_transition_events(atom_sites=st, atom_inner_sites=st)
atheris.Setup(sys.argv, one)
atheris.Fuzz()
