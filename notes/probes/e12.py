import numpy as np, warnings, itertools, time, sys
warnings.filterwarnings('ignore')
sys.argv=['x']; exec(open('e11.py').read().split("# exhaustive default")[0])
# symbols: (-1), (s,in), (s,out) for s in 0,1 -> 5 symbols; L up to 6
syms=[(-1,-1),(0,0),(0,-1),(1,1),(1,-1),(2,2),(2,-1)]
from multiprocessing import Pool
def work(h):
    st=np.array([x[0] for x in h])[:,None]; inn=np.array([x[1] for x in h])[:,None]
    if len(set(x[0] for x in h))==1: return None
    res=[]
    d=model_jumps(st); dk={(a,o,de,ts) for a,o,de,ts,te in d}
    prev=None
    for mr in [0,1,2,3,5]:
        c=code_jumps(st, inn, mr)
        if c and c[0]=='EVEXC': return ('evexc',h,c)
        ck=[(a,o,de,ts) for a,o,de,ts,te in c]
        if len(set(ck))!=len(ck): return ('dup',h,mr,c)
        if not set(ck)<=dk: return ('notsubset',h,mr,c,d)
        for a,o,de,ts,te in c:
            if not (st[ts,a]==o and st[te,a]==de and ts<te): return ('inconsistent',h,mr,c)
        if prev is not None and not set(ck)<=prev: return ('nonmonotone',h,mr,c,prev)
        prev=set(ck)
    return None
if __name__=='__main__':
    hs=[h for L in range(2,7) for h in itertools.product(syms, repeat=L)]
    print(len(hs))
    t0=time.time()
    with Pool(16) as p:
        out=p.map(work, hs, chunksize=500)
    from collections import Counter
    c=Counter(o[0] for o in out if o)
    print(c, time.time()-t0)
    seen=set()
    for o in out:
        if o and o[0] not in seen:
            seen.add(o[0]); print(o)
