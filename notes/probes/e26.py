import numpy as np, warnings
warnings.filterwarnings('ignore')
from collections import Counter
from pymatgen.core import Lattice, Species, Structure
from gemdat import Trajectory
from gemdat.transitions import Transitions, _calculate_transition_events
from gemdat.jumps import Jumps
rng=np.random.default_rng(5)
lat=Lattice.from_parameters(8,9,10,90,90,90)
sf=np.array([[0.1,0.1,0.1],[0.4,0.1,0.1],[0.7,0.1,0.1],[0.1,0.5,0.5],[0.6,0.6,0.6]])
labels=['A','A','B','B','C']
sites=Structure(lat,['Li']*5,sf,labels=labels)
bad=0
for it in range(100):
    nF=int(rng.integers(5,40)); nA=int(rng.integers(1,4))
    st=np.zeros((nF,nA),int)
    for a in range(nA):
        cur=int(rng.integers(-1,5))
        for f in range(nF):
            if rng.random()<0.3: cur=int(rng.integers(-1,5))
            st[f,a]=cur
    if all(len(set(st[:,a]))==1 for a in range(nA)): continue
    ev=_calculate_transition_events(atom_sites=st,atom_inner_sites=st)
    t=Trajectory(species=[Species('Li')]*nA,coords=rng.random((nF,nA,3)),lattice=lat,time_step=2e-15,metadata={'temperature':500})
    tr=Transitions(trajectory=t,diff_trajectory=t,sites=sites,events=ev,states=st,inner_states=st)
    try:
        occ=tr.occupancy()
        o=[s.species.num_atoms for s in occ]
        exp=[(st==i).sum()/nF for i in range(5)]
        if not np.allclose(o,exp): bad+=1; print("occ",o,exp)
        al=tr.atom_locations(); 
        for L in set(labels):
            e=sum(exp[i] for i in range(5) if labels[i]==L)/nA
            if not np.isclose(al[L],e): bad+=1; print("al")
    except Exception as e:
        mx=max((st==i).sum()/nF for i in range(5))
        print("occ EXC",type(e).__name__,str(e)[:80],"max occ",mx)
    try: j=Jumps(tr)
    except ValueError: continue
    M=j.matrix(); 
    c=Counter(zip(j.data['start site'],j.data['destination site']))
    E=np.zeros((5,5),int)
    for (a,b),v in c.items(): E[a,b]=v
    if not np.array_equal(M,E): bad+=1; print("matrix")
    G=j.to_graph()
    if set(G.edges)!={(int(a),int(b)) for a,b in c}: bad+=1; print("graph",set(G.edges),set(c))
    jd=j.jump_diffusivity(3)
    pd=lat.get_all_distances(sf,sf)
    e=sum(pd[a,b]**2*v for (a,b),v in c.items())*1e-20/(6*nA*nF*2e-15)
    if not np.isclose(jd,e,rtol=1e-9): bad+=1; print("jd")
    cl=j.counter(); 
    for (a,b),v in cl.items():
        if v!=sum(vv for (x,y),vv in c.items() if labels[x]==a and labels[y]==b): bad+=1
print("bad",bad)
