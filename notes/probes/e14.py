import numpy as np, warnings, time
warnings.filterwarnings('ignore')
from pymatgen.core import Lattice, Species
from pymatgen.symmetry.groups import PointGroup, SpaceGroup
from scipy.spatial.transform import Rotation as R
from gemdat import Trajectory, Orientations
rng=np.random.default_rng(0)
lat=Lattice.from_parameters(9,10,11,75,85,100)
tet=np.array([[1,1,1],[1,-1,-1],[-1,1,-1],[-1,-1,1]])/np.sqrt(3)*1.2
centres_frac=np.array([[0.02,0.5,0.98],[0.55,0.03,0.5]])
nF=8
cent=[];sat=[]
for f in range(nF):
    c = centres_frac + rng.normal(0,0.003,(2,3))
    cc = lat.get_cartesian_coords(c)
    s=[]
    for i in range(2):
        rot=R.from_rotvec(rng.normal(0,0.3,3)*f).as_matrix()
        s.append(cc[i]+tet@rot.T)
    cent.append(c); sat.append(lat.get_fractional_coords(np.vstack(s)))
coords=np.concatenate([np.array(cent),np.array(sat)],axis=1)%1
sp=[Species('S')]*2+[Species('O')]*8
t=Trajectory(species=sp,coords=coords,lattice=lat,time_step=1e-15,metadata={'temperature':300})
o=Orientations(t,'S','O')
print(o.vectors.shape, np.linalg.norm(o.vectors,axis=-1).round(6)[0])
# oracle
def minimg(d):
    best=None
    for n in np.mgrid[-2:3,-2:3,-2:3].reshape(3,-1).T:
        v=lat.get_cartesian_coords(d+n)
        if best is None or np.linalg.norm(v)<np.linalg.norm(best): best=v
    return best
err=0
for f in range(nF):
    for i in range(2):
        for j in range(4):
            v=minimg(coords[f,2+4*i+j]-coords[f,i])
            err=max(err,np.abs(v-o.vectors[f,4*i+j]).max())
print("err",err)
for g in ['1','-1','2/m','mmm','4/mmm','m-3m','-43m','23','6/mmm','-3m','3']:
    pg=PointGroup(g); ops=np.array([e.rotation_matrix for e in pg.symmetry_ops])
    orth=all(np.allclose(m@m.T,np.eye(3)) for m in ops)
    s=o.symmetrize(sym_group=g)
    print(g,len(ops),orth,s.vectors.shape)
ac=o.autocorrelation(); print(ac.shape, ac[:,0])
v=o.vectors; ref=np.zeros((8,nF))
for tau in range(nF):
    ref[:,tau]=(v[tau:]*v[:nF-tau]).sum(-1).mean(0)
ref/=ref[:,[0]]
print("ac err",np.abs(ac-ref).max())
sph=o.vectors_spherical; az,el,r=np.radians(sph[...,0]),np.radians(sph[...,1]),sph[...,2]
back=np.stack([r*np.cos(el)*np.cos(az), r*np.cos(el)*np.sin(az), r*np.sin(el)],-1)
print("sph err",np.abs(back-v).max())
t0=time.time(); sg=SpaceGroup('Fm-3m'); print(len(list(sg)), time.time()-t0)
t0=time.time(); sg=SpaceGroup.from_int_number(227); print(len(list(sg)), sg.crystal_system, time.time()-t0)
