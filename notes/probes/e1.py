import numpy as np, warnings
warnings.filterwarnings('ignore')
from pymatgen.core import Lattice, Species, Structure
from gemdat import Trajectory
print("np.mod(-1e-17,1)=", repr(np.mod(-1e-17,1)), np.mod(-1e-17,1) < 1)
coords = np.array([[[ -1e-17, 0.5, 0.5]], [[0.1,0.5,0.5]]])
t = Trajectory(species=[Species('Li')], coords=coords, lattice=np.eye(3)*5, time_step=1e-15, metadata={'temperature':300})
p = t.positions
print(p.max(), (p<1).all())
try:
    t.to_volume(resolution=0.5)
    print("volume ok")
except AssertionError as e:
    print("AssertionError in to_volume")
# after displacements roundtrip
t.displacements
print(repr(t.positions[0,0,0]))
# 1-1e-16
coords = np.array([[[ 1-1e-16, 0.5, 0.5]], [[0.1,0.5,0.5]]])
t = Trajectory(species=[Species('Li')], coords=coords, lattice=np.eye(3)*5, time_step=1e-15, metadata={'temperature':300})
print(repr(t.positions[0,0,0]))
d=t.displacements; print(d[:,0,0]); print(repr(t.positions[:,0,0]))
