import numpy as np, warnings
warnings.filterwarnings('ignore')
from pymatgen.core import Lattice, Species, Structure
from gemdat import Trajectory
from gemdat.metrics import TrajectoryMetrics
rng=np.random.default_rng(9)
bad=0; n=0
for it in range(200):
    lat=Lattice.from_parameters(*rng.uniform(6,10,3),90,90,90)
    ns=int(rng.integers(2,6))
    sf=rng.random((ns,3))
    sites=Structure(lat,['Li']*ns,sf)
    nF=12;nA=2
    pos=np.zeros((nF,nA,3))
    for a in range(nA):
        cur=int(rng.integers(0,ns))
        for f in range(nF):
            if rng.random()<0.3: cur=int(rng.integers(0,ns))
            pos[f,a]=sf[cur]+lat.get_fractional_coords(rng.normal(0,0.25,3))
    t=Trajectory(species=[Species('Li')]*nA,coords=pos%1,lattice=lat,time_step=1e-15,metadata={'temperature':300})
    pd=lat.get_all_distances(sf,sf); md=pd[np.triu_indices(ns,1)].min()
    try: tr=t.transitions_between_sites(sites,'Li')
    except ValueError as e:
        if md>=0.51: bad+=1; print("unexpected VE",md,repr(e)[:300]); import traceback; traceback.print_exc()
        continue
    n+=1
    amp=float(TrajectoryMetrics(t.filter('Li')).vibration_amplitude())
    r=2*amp
    if md<2*r: r=0.5*md-0.005
    if not 2*r<md: bad+=1; print("overlap",r,md)
    d=lat.get_all_distances(t.positions.reshape(-1,3),sf)
    within=(d<r-1e-3).sum(1); 
    if within.max()>1: bad+=1; print("nonunique")
    exp=np.where((d<r-1e-3).any(1),(d<r-1e-3).argmax(1),-1); amb=(np.abs(d-r)<1e-3).any(1)
    got=tr.states.ravel()
    if not np.array_equal(got[~amb],exp[~amb]): bad+=1; print("states")
print(n,"bad",bad)
