import numpy as np, warnings, time
warnings.filterwarnings('ignore')
from pymatgen.core import Lattice, PeriodicSite
from pymatgen.symmetry.groups import SpaceGroup
import gemdat.shape as S
from gemdat.shape import ShapeAnalyzer
rng=np.random.default_rng(4)
def lattice_for(cs):
    a,b,c=rng.uniform(5,9,3); al,be,ga=rng.uniform(75,105,3)
    return {'triclinic':lambda:Lattice.from_parameters(a,b,c,al,be,ga),
            'monoclinic':lambda:Lattice.from_parameters(a,b,c,90,be,90),
            'orthorhombic':lambda:Lattice.from_parameters(a,b,c,90,90,90),
            'tetragonal':lambda:Lattice.from_parameters(a,a,c,90,90,90),
            'trigonal':lambda:Lattice.from_parameters(a,a,c,90,90,120),
            'hexagonal':lambda:Lattice.from_parameters(a,a,c,90,90,120),
            'cubic':lambda:Lattice.from_parameters(a,a,a,90,90,90)}[cs]()
def minimg(lat,d):
    n=np.mgrid[-3:4,-3:4,-3:4].reshape(3,-1).T
    c=(d[None]+n)
    norms=np.linalg.norm(c@lat.matrix,axis=1)
    return c[norms.argmin()], norms.min()
def oracle(lat,sg,site,positions,radius):
    pts=[]
    for op in sg:
        sym=op.operate(site)
        Rinv=np.linalg.inv(op.rotation_matrix)
        for p in positions:
            dfr,dn=minimg(lat,p-sym)
            if dn<radius:
                pts.append((Rinv@dfr)@lat.matrix)
    return np.array(pts).reshape(-1,3)
res={}
for num in [1,2,10,14,15,47,62,70,123,141,148,164,166,194,221,225,227,230]:
    sg=SpaceGroup.from_int_number(num)
    bad=0; mism=0
    for it in range(6):
        lat=lattice_for(sg.crystal_system)
        if not sg.is_compatible(lat): print("incompat",num); continue
        site=rng.random(3); 
        if it%2==0: site[rng.integers(0,3)]=rng.choice([0.02,0.97,0.0])
        ops=list(sg)
        positions=[]
        for k in range(6):
            op=ops[rng.integers(0,len(ops))]
            positions.append((op.operate(site)+lat.get_fractional_coords(rng.normal(0,0.4,3)))%1)
        positions=np.array(positions+[rng.random(3) for _ in range(3)])
        radius=1.0
        sa=ShapeAnalyzer(sites=[PeriodicSite('Li',site,lat)],lattice=lat,spacegroup=sg)
        got=sa.analyze_positions(positions.copy(),radius=radius)[0].coords
        exp=oracle(lat,sg,site,positions,radius)
        if len(got)!=len(exp): mism+=1; continue
        # multiset compare
        g=got[np.lexsort(np.round(got,6).T)]; e=exp[np.lexsort(np.round(exp,6).T)]
        if np.linalg.norm(got,axis=1).max(initial=0)>=radius: bad+=1
        elif not np.allclose(g,e,atol=1e-6): mism+=1
    res[num]=(sg.symbol,len(list(sg)),bad,mism)
print(res)
