import numpy as np, warnings, traceback, time
warnings.filterwarnings('ignore')
from pymatgen.core import Lattice, Structure, Species, Element
from gemdat import Trajectory
from gemdat.metrics import TrajectoryMetrics
rng=np.random.default_rng(0)
lat = Lattice.from_parameters(8,8,8,90,90,90)
sites_frac = np.array([[0.1,0.1,0.1],[0.4,0.1,0.1],[0.7,0.1,0.1],[0.1,0.5,0.5],[0.5,0.5,0.5]])
sites = Structure(lat, ['Li']*5, sites_frac, labels=['A','A','B','B','B'])
nF, nLi = 60, 3
# hop sequence
cur = [0,2,4]
pos = np.zeros((nF, nLi+2, 3))
for f in range(nF):
    for a in range(nLi):
        if rng.random()<0.15:
            cur[a] = rng.integers(0,5)
        pos[f,a] = sites_frac[cur[a]] + rng.normal(0,0.02,3)
    pos[f,nLi] = [0.3,0.8,0.8]+rng.normal(0,0.005,3)
    pos[f,nLi+1] = [0.8,0.8,0.3]+rng.normal(0,0.005,3)
sp=[Species('Li')]*nLi+[Species('S'),Species('P')]
t = Trajectory(species=sp, coords=pos%1, lattice=lat, time_step=2e-15, metadata={'temperature':300})
t0=time.time()
tr = t.transitions_between_sites(sites, 'Li', site_radius=0.8)
print("transitions", time.time()-t0, tr.states.shape, len(tr.events))
t0=time.time(); j = tr.jumps(); print("jumps", time.time()-t0, j.n_jumps)
t0=time.time(); c = j.collective(); print("collective", time.time()-t0, c.n_solo_jumps, c.max_steps)
t0=time.time(); print(j.jump_diffusivity(3), time.time()-t0)
t0=time.time(); r = tr.radial_distribution(floating_specie='Li', max_dist=4, resolution=0.5); print("rdf", time.time()-t0, list(r))
t0=time.time(); r = t.radial_distribution_between_species(specie_1='Li', specie_2='S', max_dist=4, resolution=0.5); print("rdf2", time.time()-t0)
t0=time.time(); v=t.filter('Li').to_volume(resolution=1.0); print("vol", time.time()-t0, v.data.shape, v.data.sum())
t0=time.time(); F=v.get_free_energy(300.); G=F.free_energy_graph(max_energy_threshold=1e7); print("graph", time.time()-t0, len(G))
t0=time.time(); tr2 = t.transitions_between_sites(sites, 'Li'); print("auto radius", time.time()-t0)
t0=time.time(); s=j.split(2); print("split", time.time()-t0, [x.n_jumps for x in s])
print(j.rates(2))
import gc, weakref
from gemdat.jumps import Jumps
from gemdat.transitions import Transitions
print(hasattr(Transitions.matrix,'__wrapped__'), hasattr(Jumps.collective,'__wrapped__'))
j2 = tr.jumps(); w = weakref.ref(j2); j2.matrix(); j2.jump_diffusivity(3); del j2; gc.collect(); print("alive after matrix:", w() is not None)
j2 = tr.jumps(); w = weakref.ref(j2); j2.collective(); del j2; gc.collect(); print("alive after collective:", w() is not None)
j2 = tr.jumps(); w = weakref.ref(j2); j2.rates(2); del j2; gc.collect(); print("alive after rates:", w() is not None)
j2 = tr.jumps(); w = weakref.ref(j2); j2.to_graph(); del j2; gc.collect(); print("alive after to_graph:", w() is not None)
m = TrajectoryMetrics(t); w = weakref.ref(m); m.haven_ratio(); m.attempt_frequency(); del m; gc.collect(); print("alive metrics:", w() is not None)
