import gc, weakref
from gemdat.caching import weak_lru_cache
class Obj:
    calls=0
    def __init__(self,p): self.p=p
    @weak_lru_cache()
    def f(self,a=0):
        Obj.calls+=1
        return (self.p,a)
reuse=0; wrong=0; dead_ids=set()
for i in range(2000):
    o=Obj(i); 
    if id(o) in dead_ids: reuse+=1
    r=o.f(1)
    if r!=(i,1): wrong+=1
    dead_ids.add(id(o)); del o
print("reuse",reuse,"wrong",wrong,"calls",Obj.calls)
# id-keyed mutant
import functools
def bad_cache():
    def wrapper(func):
        @functools.lru_cache(128)
        def _f(_id,*a,**k): return func(_objs[_id],*a,**k)
        def inner(self,*a,**k):
            _objs[id(self)]=self; r=_f(id(self),*a,**k); del _objs[id(self)]; return r
        return inner
    return wrapper
_objs={}
class Obj2:
    def __init__(self,p): self.p=p
    @bad_cache()
    def f(self,a=0): return (self.p,a)
wrong=0
for i in range(2000):
    o=Obj2(i); wrong+= o.f(1)!=(i,1); del o
print("mutant wrong",wrong)
