import numpy as np, warnings, itertools
warnings.filterwarnings('ignore')
from collections import defaultdict
from pymatgen.core import Lattice, Species, Structure
from gemdat import Trajectory
import gemdat.rdf as R
# patch the label bug to see whether anything else disagrees
def _uniq_fixed(arr, labels):
    unique_labels=list(set(labels))
    mapping=np.array([-1]+[unique_labels.index(l) for l in labels])
    return mapping[np.asarray(arr)+1]
rng=np.random.default_rng(2)
def minimg_d(lat,a,b):
    n=np.mgrid[-2:3,-2:3,-2:3].reshape(3,-1).T
    d=(b-a)[None]+n
    return np.linalg.norm(d@lat.matrix,axis=1).min()
for fixed in (False,True):
    if fixed: R._uniqify_labels=_uniq_fixed
    bad=0
    for it in range(60):
        lat=Lattice.from_parameters(7,8,9,90,90,90) if True else None
        sf=np.array([[0.1,0.1,0.1],[0.5,0.1,0.1],[0.1,0.6,0.1],[0.6,0.6,0.6]])
        labels=['A','B','A','C']
        sites=Structure(lat,['Li']*4,sf,labels=labels)
        nF=10;nLi=2
        pos=np.zeros((nF,nLi+2,3))
        for a in range(nLi):
            cur=int(rng.integers(-1,4))
            for f in range(nF):
                if rng.random()<0.5: cur=int(rng.integers(-1,4))
                pos[f,a]= (sf[cur]+rng.normal(0,0.01,3)) if cur>=0 else np.array([0.3,0.35,0.8])+rng.normal(0,0.01,3)
        pos[:,nLi]=[0.8,0.2,0.5]+rng.normal(0,0.01,(nF,3)); pos[:,nLi+1]=[0.2,0.8,0.9]+rng.normal(0,0.01,(nF,3))
        sp=[Species('Li')]*nLi+[Species('S'),Species('P')]
        t=Trajectory(species=sp,coords=pos%1,lattice=lat,time_step=1e-15,metadata={'temperature':300})
        try: tr=t.transitions_between_sites(sites,'Li',site_radius=0.6)
        except Exception as e: continue
        res=0.5; md=4.0
        rd=tr.radial_distribution(floating_specie='Li',max_dist=md,resolution=res)
        bins=np.arange(0,md+res,res)
        st=tr.states
        exp=defaultdict(lambda: np.zeros(len(bins),int)); tilde=defaultdict(lambda: np.zeros(len(bins),int))
        P=t.positions
        for f in range(nF):
            for k in range(nLi):
                s=st[f,k]
                if s>=0: name='@'+labels[s]
                else:
                    prev=[x for x in st[:f+1,k][::-1] if x>=0]; nxt=[x for x in st[f:,k] if x>=0]
                    name=(labels[prev[0]]+'->'+labels[nxt[0]]) if prev and nxt else '~>'
                for j,spj in enumerate(sp):
                    d=minimg_d(lat,P[f,k],P[f,j])
                    b=int(np.digitize(d,bins,right=True))
                    if b<len(bins):
                        (tilde if name=='~>' else exp)[(name,spj.symbol)][b]+=1
        got=defaultdict(lambda: np.zeros(len(bins),int)); gt=defaultdict(lambda: np.zeros(len(bins),int))
        for state,coll in rd.items():
            for r in coll:
                if state.startswith('~>'): gt[('~>',r.label)]+=r.y
                else: got[(state,r.label)]+=r.y
        keys=set(exp)|set(got)
        ok=all(np.array_equal(exp[k],got[k]) for k in keys) and all(np.array_equal(tilde[k],gt[k]) for k in set(tilde)|set(gt))
        if not ok:
            bad+=1
    print("fixed" if fixed else "orig","bad",bad)
