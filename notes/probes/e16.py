import numpy as np
from gemdat.utils import fft_autocorrelation
exec(open('e15.py').read().split("# fixed version")[1].split("v=rng")[0])
coords = np.array([
 [[0.2,0,0],[0,0,.5],[0,0,.5],[0,0,.5]],
 [[0.4,0,0],[0,0,.5],[0,0,.5],[0,0,.5]],
 [[0.6,0,0],[0,0,.5],[0,0,.5],[0,0,.5]],
 [[0.8,0,0],[0,0,.5],[0,0,.5],[0,0,.5]],
 [[0.1,0,0],[0,0,.5],[0,0,.5],[0,0,.5]]])
print(fft_autocorrelation(coords).mean(), fixed(coords).mean())
print(fft_autocorrelation(coords)); print(fixed(coords))
