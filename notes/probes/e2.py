import numpy as np, warnings
warnings.filterwarnings('ignore')
from pymatgen.core import Lattice, Species, Structure
from gemdat import Trajectory
from gemdat.transitions import _calculate_atom_states

def run(lattice, sites_frac, atom_frac, radius=1.0, labels=None):
    sites = Structure(lattice, ['Li']*len(sites_frac), sites_frac, labels=labels)
    coords = np.array(atom_frac, float)  # frames x atoms x 3
    t = Trajectory(species=[Species('Li')]*coords.shape[1], coords=coords, lattice=lattice, time_step=1e-15, metadata={'temperature':300})
    st = _calculate_atom_states(sites, t, radius if isinstance(radius, dict) else {'': radius})
    # oracle
    d = lattice.get_all_distances(coords.reshape(-1,3) % 1, sites.frac_coords)
    exp = np.full(d.shape[0], -1)
    for i,row in enumerate(d):
        j = np.where(row < radius)[0] if not isinstance(radius, dict) else []
        if len(j): exp[i] = j[-1]
    return st.ravel(), exp, d

# hexagonal lattice, pymatgen convention
lat = Lattice.from_parameters(6,6,8,90,90,120)
print(lat.matrix)
sites = [[0.02,0.02,0.5],[0.5,0.5,0.5]]
atoms = [[[0.98,0.98,0.5],[0.5,0.52,0.5],[0.98, 0.03, 0.5]]]
print(run(lat, sites, atoms))
# rotated cubic
from scipy.spatial.transform import Rotation as R
rot = R.from_euler('xyz',[30,40,50],degrees=True).as_matrix()
lat2 = Lattice(np.eye(3)*6 @ rot.T)
print(run(lat2, sites, atoms))
lat3 = Lattice(np.eye(3)*6)
print(run(lat3, sites, atoms))
# triclinic
lat4 = Lattice.from_parameters(6,7,8,70,80,100)
print(run(lat4, sites, atoms))
