import numpy as np, warnings
warnings.filterwarnings('ignore')
from pymatgen.core import Lattice
from gemdat.volume import Volume
kB=8.617333262e-5
rng=np.random.default_rng(1); bad=0
for it in range(200):
    shape=tuple(rng.integers(1,6,3)); d=rng.integers(0,50,shape)*(rng.random(shape)<0.6)
    if d.sum()==0: d.flat[0]=3
    d=d.astype(float) if it%2 else d
    T=float(rng.uniform(1,2000))
    F=Volume(data=d,lattice=Lattice.cubic(5)).get_free_energy(T)
    vis=d>0; p=d/d.sum()
    ok=np.allclose(F.data[vis],-kB*T*np.log(p[vis]),rtol=1e-9,atol=1e-15) and np.isfinite(F.data).all() and (F.data[~vis]>=1e20).all()
    ok&=np.isclose(np.exp(-F.data[vis]/(kB*T)).sum(),1)
    G=F.free_energy_graph(); ok&=set(G.nodes)=={tuple(int(x) for x in v) for v in np.argwhere(vis)}
    G=F.free_energy_graph(max_energy_threshold=1e7); ok&=set(G.nodes)=={tuple(int(x) for x in v) for v in np.argwhere(vis)}
    if not ok: bad+=1
print("bad",bad)
