import numpy as np, warnings, traceback
warnings.filterwarnings('ignore')
from pymatgen.core import Lattice, Structure, Species, Element, PeriodicSite
from pymatgen.symmetry.groups import SpaceGroup
from gemdat import Trajectory, ShapeAnalyzer
from gemdat.path import free_energy_graph, optimal_path
# minmax
F = np.full((6,1,1), 5.0)
# ring of 6 along x; two routes from 0 to 3: via 1,2 (energies 1,1... ) and via 5,4
F[:,0,0] = [0.1, 3.0, 0.1, 0.1, 1.2, 1.2]
# route A: 0-1-2-3 sum weights: (0.1+3)/2+(3+.1)/2+(.1+.1)/2=3.2, max 3.0 ; route B: 0-5-4-3: (0.1+1.2)/2+1.2+(1.2+.1)/2=2.5 -> dijkstra picks B (max 1.2).
F[:,0,0] = [0.1, 1.5, 0.1, 0.1, 1.0, 1.0]
# A: .8+.8+.1=1.7 max 1.5; B: .55+1.0+.55=2.1 max 1.0 => dijkstra A, minmax should be B
G = free_energy_graph(F, max_energy_threshold=1e7, diagonal=False)
for m in ['dijkstra','minmax-energy','simple','dijkstra-exp','bellman-ford']:
    try:
        p = optimal_path(G, start=(0,0,0), stop=(3,0,0), method=m)
        print(m, p.sites, max(p.energy))
    except Exception as e:
        print(m, "EXC", type(e).__name__, e)
# drift with Element
coords = np.random.default_rng(0).random((4,3,3))
t = Trajectory(species=[Element('Li'),Element('S'),Element('P')], coords=coords, lattice=np.eye(3)*5, time_step=1e-15, metadata={})
try:
    t.drift(floating_species='Li'); print("drift ok")
except AssertionError as e: print("drift AssertionError", e)
print(t.drift(fixed_species=['S','P']).shape)
# shape
lat = Lattice.cubic(10)
sg = SpaceGroup('P-1')
site = PeriodicSite('Li', [0.95,0.5,0.5], lat)
sa = ShapeAnalyzer(sites=[site], lattice=lat, spacegroup=sg)
pos = np.array([[0.98,0.5,0.5],[0.02,0.5,0.5],[0.07,0.5,0.5]])
sh = sa.analyze_positions(pos, radius=1.0)
print(sh[0].coords, sh[0].distances())
