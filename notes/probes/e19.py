import numpy as np, warnings
warnings.filterwarnings('ignore')
from pymatgen.core import Lattice, Species, Element
from gemdat import Trajectory
from gemdat.metrics import TrajectoryMetrics
rng=np.random.default_rng(11)
def circ(a,b): d=a-b; d-=np.round(d); return np.abs(d).max() if d.size else 0
bad=0
for it in range(300):
    lat=Lattice.from_parameters(*rng.uniform(4,9,3),*rng.uniform(70,110,3))
    nF=int(rng.integers(2,9)); sp=[Species('Li'),Species('Li'),Element('S'),Species('P')][:int(rng.integers(2,5))]
    nA=len(sp)
    unw=rng.random((nA,3))+np.cumsum(rng.normal(0,0.1,(nF,nA,3)),axis=0)
    model={'pos':unw%1,'sp':list(sp)}
    t=Trajectory(species=sp,coords=unw.copy() if rng.random()<0.5 else unw%1,lattice=lat,time_step=1e-15,metadata={'temperature':300})
    live=[(t,model)]
    for step in range(12):
        k=int(rng.integers(0,len(live))); tr,m=live[k]
        op=rng.choice(['pos','disp','cum','dist','msd','filter','slice','split','extend','metrics','vol','int'])
        try:
            if op=='pos': tr.positions
            elif op=='disp': tr.displacements
            elif op=='cum': tr.cumulative_displacements
            elif op=='dist': tr.distances_from_base_position()
            elif op=='msd': tr.mean_squared_displacement()
            elif op=='metrics': TrajectoryMetrics(tr).tracer_diffusivity(dimensions=3); 
            elif op=='vol': tr.to_volume(resolution=1.0)
            elif op=='int':
                i=int(rng.integers(0,len(tr))); s=tr[i]
                if circ(s.frac_coords,m['pos'][i])>1e-9: bad+=1; print('int')
            elif op=='filter':
                sym=rng.choice(['Li','S','P'])
                idx=[s.symbol==sym for s in m['sp']]
                if not any(idx): continue
                n=tr.filter(sym); live.append((n,{'pos':m['pos'][:,idx],'sp':[s for s,i in zip(m['sp'],idx) if i]}))
            elif op=='slice':
                a,b,c=[int(x) if rng.random()<0.7 else None for x in rng.integers(-len(tr)-1,len(tr)+2,3)]
                if c==0: c=None
                sl=slice(a,b,c)
                if len(range(*sl.indices(len(tr))))==0: continue
                n=tr[sl]; live.append((n,{'pos':m['pos'][sl],'sp':m['sp']}))
            elif op=='split':
                if len(tr)<3: continue
                npart=int(rng.integers(1,len(tr)))
                ps=tr.split(npart, equal_parts=bool(rng.random()<0.5))
            elif op=='extend':
                o,mo=live[int(rng.integers(0,len(live)))]
                if mo['sp']!=m['sp'] or o is tr: continue
                tr.extend(o); m['pos']=np.concatenate([m['pos'],mo['pos']])
        except Exception as e:
            print("EXC",op,type(e).__name__,e); bad+=1
        for tr2,m2 in live:
            mode=tr2.coords_are_displacement
            p=tr2.positions
            if p.shape!=m2['pos'].shape or circ(p,m2['pos'])>1e-9 or tr2.species!=m2['sp']:
                bad+=1; print("MISMATCH after",op, p.shape, m2['pos'].shape); break
            if mode: tr2.to_displacements()
print("bad",bad)
