import numpy as np, warnings, itertools, heapq
warnings.filterwarnings('ignore')
from pymatgen.core import Lattice, Species, Structure
from gemdat import Trajectory
from gemdat.volume import FreeEnergyVolume, Volume, trajectory_to_volume
from gemdat.path import optimal_percolating_path, free_energy_graph, optimal_path
rng=np.random.default_rng(3)
lat=Lattice.from_parameters(4,5,6,80,95,105)
def nbrs(shape, diag=True):
    mv=[m for m in itertools.product([-1,0,1],repeat=3) if any(m) and (diag or sum(map(abs,m))==1)]
    # code's diagonal list has 16 entries: check which
    miss={(1,1,-1),(-1,-1,1),(1,-1,1),(-1,1,-1)}
    return [m for m in mv if m not in miss]
def dijk(F, start, stop, thr, nodecost=False, diag=True):
    shape=F.shape; ok=lambda v: 0<=F[v]<thr
    if not ok(start) or not ok(stop): return None
    dist={start:0.0}; pq=[(0.0,start)]
    while pq:
        d,u=heapq.heappop(pq)
        if d>dist.get(u,1e300): continue
        if u==stop: return d
        for m in nbrs(shape,diag):
            v=tuple((np.array(u)+m)%shape)
            v=tuple(int(x) for x in v)
            if not ok(v) or v==u: continue
            w=0.5*(F[u]+F[v]); nd=d+w
            if nd<dist.get(v,1e300): dist[v]=nd; heapq.heappush(pq,(nd,v))
    return None
bad=0
for it in range(200):
    shape=tuple(rng.integers(1,5,3))
    F=rng.random(shape)*3
    F[rng.random(shape)<0.3]=1e9
    Fv=FreeEnergyVolume(data=F,lattice=lat)
    adm=[tuple(int(x) for x in v) for v in np.argwhere(F<1e7)]
    if len(adm)<1: continue
    peaks=np.array([adm[i] for i in rng.integers(0,len(adm),min(3,len(adm)))])
    perc=''.join(c for c in 'xyz' if rng.random()<0.5) or 'x'
    pz=np.array([c in perc for c in 'xyz'])
    p=optimal_percolating_path(Fv,peaks=peaks,percolate=perc)
    F2=np.tile(F,tuple(1+pz))
    best=None
    for pk in peaks:
        s=tuple(int(x) for x in pk); e=tuple(int(x) for x in pk+np.array(shape)*pz)
        d=dijk(F2,s,e,1e7)
        if d is None: continue
        tot=d+F2[s]  # node energy sum = edge sum + (Es+Ee)/2
        if best is None or tot<best: best=tot
    if (p is None)!=(best is None): bad+=1; print("none mismatch",shape,perc); continue
    if p is None: continue
    if abs(p.total_energy-best)>1e-9: bad+=1; print("cost mismatch",shape,perc,p.total_energy,best)
    ws=p.wrapped_sites()
    if any(not (0<=w[i]<shape[i]) for w in ws for i in range(3)):
        bad+=1
print("bad",bad)
# movement list check: code has 6+16=22 moves, not 26!
G=free_energy_graph(np.zeros((5,5,5)),diagonal=True)
print("degree", G.degree[(2,2,2)])
