import numpy as np, warnings
warnings.filterwarnings('ignore')
from pymatgen.core import Lattice, Species, Element
from gemdat import Trajectory
from gemdat.metrics import TrajectoryMetrics, TrajectoryMetricsStd
kB=1.380649e-23; e=1.602176634e-19; NA=6.02214076e23
rng=np.random.default_rng(7)
bad=0
for it in range(100):
    lat=Lattice.from_parameters(*rng.uniform(4,9,3),*rng.uniform(70,110,3))
    nF=int(rng.integers(6,30)); nA=int(rng.integers(1,5))
    sp=[Species(s) for s in rng.choice(['Li','Na','S','O'],nA)]
    unw=rng.random((nA,3))+np.cumsum(rng.normal(0,0.03,(nF,nA,3)),axis=0)
    dt=float(rng.uniform(0.5,5))*1e-15; T=float(rng.uniform(100,1500))
    mk=lambda L,dt_: Trajectory(species=sp,coords=unw%1,lattice=L,time_step=dt_,metadata={'temperature':T})
    t=mk(lat,dt); m=TrajectoryMetrics(t)
    k=float(rng.uniform(0.3,3)); s=float(rng.uniform(0.3,3))
    mk_=TrajectoryMetrics(mk(Lattice(lat.matrix*k),dt)); ms=TrajectoryMetrics(mk(lat,dt*s))
    d=int(rng.integers(1,4)); z=int(rng.choice([-2,-1,1,2,3]))
    cart=(unw-unw[0])@lat.matrix
    D=(np.linalg.norm(cart[-1],axis=1)**2).mean()*1e-20/(2*d*nF*dt)
    dens=nA/(lat.volume*1e-30)
    checks={
     'D':np.isclose(m.tracer_diffusivity(dimensions=d),D,rtol=1e-9),
     'dens':np.isclose(m.particle_density(),dens,rtol=1e-12),
     'mol':np.isclose(m.mol_per_liter(),dens*1e-3/NA,rtol=1e-9),
     'cond':np.isclose(m.tracer_conductivity(z_ion=z,dimensions=d),e**2*z**2*D*dens/(kB*T),rtol=1e-8),
     'Dk':np.isclose(mk_.tracer_diffusivity(dimensions=d),D*k*k,rtol=1e-9),
     'Ds':np.isclose(ms.tracer_diffusivity(dimensions=d),D/s,rtol=1e-9),
     'fk':np.isclose(mk_.attempt_frequency()[0],m.attempt_frequency()[0],rtol=1e-9),
     'fs':np.isclose(ms.attempt_frequency()[0],m.attempt_frequency()[0]/s,rtol=1e-9),
     'ampk':np.isclose(mk_.vibration_amplitude(),m.vibration_amplitude()*k,rtol=1e-9),
     'densk':np.isclose(mk_.particle_density(),dens/k**3,rtol=1e-9),
     'ampsum':np.isclose(m.amplitudes().sum(),t.distances_from_base_position()[:,-1].sum(),rtol=1e-9),
    }
    masses=np.array([float(x.atomic_mass) for x in sp])
    com=(unw*masses[None,:,None]).sum(1)/masses.sum()
    Dcom=(np.linalg.norm((com[-1]-com[0])@lat.matrix)**2)*1e-20/(2*d*nF*dt)
    checks['Dcom']=np.isclose(m.tracer_diffusivity_center_of_mass(dimensions=d),Dcom,rtol=1e-7)
    checks['haven']=np.isclose(m.haven_ratio(dimensions=d),D/Dcom,rtol=1e-7)
    if not all(checks.values()): bad+=1; print({k_:v for k_,v in checks.items() if not v})
print("bad",bad)
