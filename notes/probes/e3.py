import numpy as np, warnings
warnings.filterwarnings('ignore')
from pymatgen.core import Lattice, Species, Structure
from gemdat import Trajectory
from gemdat.transitions import _calculate_atom_states
from gemdat.rdf import _uniqify_labels, _get_states
lat = Lattice(np.eye(3)*10)
sites_frac=[[0.1,0.1,0.1],[0.3,0.3,0.3],[0.5,0.5,0.5],[0.7,0.7,0.7],[0.9,0.9,0.9]]
labels=['A','B','A','B','A']
sites = Structure(lat, ['Li']*5, sites_frac, labels=labels)
# atom visits site 4 (A, group-local index 2) and site 3 (B local 1) only
coords=np.array([[[0.9,0.9,0.9]],[[0.7,0.7,0.7]],[[0.6,0.6,0.6]]])
t = Trajectory(species=[Species('Li')], coords=coords, lattice=lat, time_step=1e-15, metadata={'temperature':300})
print(_calculate_atom_states(sites, t, {'A':1.0,'B':0.8}).ravel(), "expected [4 3 -1]")
print(_calculate_atom_states(sites, t, {'':1.0}).ravel())
print("uniqify", _uniqify_labels(np.array([-1,0,1,2,3,4]), labels), "labels", labels, list(set(labels)))
