import numpy as np, warnings, itertools
warnings.filterwarnings('ignore')
import pandas as pd
from fractions import Fraction
from pymatgen.core import Lattice, Species, Structure
from gemdat import Trajectory
from gemdat.transitions import Transitions, _calculate_transition_events
from gemdat.jumps import Jumps
from gemdat.volume import trajectory_to_volume, Volume
rng=np.random.default_rng(5)
lat=Lattice.cubic(10)
sites=Structure(lat,['Li']*4,[[0.1,0.1,0.1],[0.4,0.1,0.1],[0.7,0.1,0.1],[0.1,0.5,0.5]],labels=['A','A','B','B'])
bad=0
for it in range(300):
    nF=int(rng.integers(3,30)); nA=int(rng.integers(1,4))
    st=np.zeros((nF,nA),int)
    for a in range(nA):
        cur=int(rng.integers(-1,4))
        for f in range(nF):
            if rng.random()<0.4: cur=int(rng.integers(-1,4))
            st[f,a]=cur
    if all(len(set(st[:,a]))==1 for a in range(nA)): continue
    ev=_calculate_transition_events(atom_sites=st,atom_inner_sites=st)
    coords=rng.random((nF,nA,3))
    t=Trajectory(species=[Species('Li')]*nA,coords=coords,lattice=lat,time_step=1e-15,metadata={'temperature':300})
    tr=Transitions(trajectory=t,diff_trajectory=t,sites=sites,events=ev,states=st,inner_states=st)
    nmax=min(len(ev),nF-1)
    if nmax<1: continue
    n=int(rng.integers(1,nmax+1))
    try:
        parts=tr.split(n)
    except Exception as e:
        print("EXC",type(e).__name__,e,nF,nA,n,len(ev)); bad+=1; continue
    assert len(parts)==n
    if not np.array_equal(np.concatenate([p.states for p in parts]),st): bad+=1; print("states")
    bins=np.linspace(0,nF+1,n+1,dtype=int)
    tot=sum(len(p.events) for p in parts)
    if tot!=len(ev): bad+=1; print("events count",tot,len(ev))
    for p,off in zip(parts,bins[:-1]):
        if len(p.events) and p.events['time'].min()<0: bad+=1; print("neg")
    # trajectory split
    tp=t.split(n)
    lens=[len(x) for x in tp]
    # jumps
    try:
        j=Jumps(tr); nj=j.n_jumps
    except ValueError: nj=0
    s=0
    for p in parts:
        try: s+=Jumps(p).n_jumps
        except ValueError: pass
        except Exception as e: print("JEXC",type(e).__name__,e); bad+=1
    if s>nj: bad+=1; print("jumps more",s,nj)
print("bad",bad)
# volume
bad=0
for it in range(300):
    L=rng.uniform(2,12,3); lat=Lattice.from_parameters(*L,*rng.uniform(70,110,3))
    res=rng.uniform(0.2,min(L))
    n=[int(np.floor(x/res)) for x in L]
    nF=5;nA=3
    c=rng.random((nF,nA,3))
    # inject edge values
    for k in range(6):
        ax=rng.integers(0,3); c[rng.integers(0,nF),rng.integers(0,nA),ax]=rng.integers(0,n[ax]+1)/n[ax] % 1 if rng.random()<0.7 else np.nextafter(1,0)
    t=Trajectory(species=[Species('Li')]*nA,coords=c,lattice=lat,time_step=1e-15)
    v=trajectory_to_volume(t,resolution=res)
    if v.data.shape!=tuple(n): bad+=1; print("shape",v.data.shape,n,L,res); continue
    if v.data.sum()!=nF*nA: bad+=1; print("sum")
    exp=np.zeros(n,int)
    amb=0
    for p in t.positions.reshape(-1,3):
        idx=[int(Fraction(float(x))*nn//1) for x,nn in zip(p,n)]
        exp[tuple(idx)]+=1
    if not np.array_equal(exp,v.data):
        amb+=1
    bad+=amb
print("vol mismatches (edge-rounding incl.)",bad)
