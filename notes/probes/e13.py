import numpy as np, warnings
warnings.filterwarnings('ignore')
from pymatgen.core import Lattice, Structure, Species
from gemdat import Trajectory
from gemdat.transitions import _calculate_atom_states
rng=np.random.default_rng(0)
lat=Lattice.cubic(20.0)
site=np.array([[0.37,0.41,0.77]])
sites=Structure(lat,['Li'],site)
r=1.0
for eps in [1e-3,1e-4,1e-5,1e-6,1e-7]:
    wrong=0
    for sign in (-1,1):
        dirs=rng.normal(size=(2000,3)); dirs/=np.linalg.norm(dirs,axis=1)[:,None]
        cart=lat.get_cartesian_coords(site)+dirs*(r+sign*eps)
        fr=lat.get_fractional_coords(cart)[None]
        t=Trajectory(species=[Species('Li')]*2000, coords=fr, lattice=lat, time_step=1e-15)
        st=_calculate_atom_states(sites,t,{'':r}).ravel()
        exp = 0 if sign<0 else -1
        wrong+=(st!=exp).sum()
    print(eps, wrong)
