import numpy as np, warnings, traceback
warnings.filterwarnings('ignore')
import pandas as pd
from gemdat.transitions import _calculate_transition_events, _calculate_transitions_matrix
# atom never enters inner site, but outer changes
st = np.array([[-1],[0],[0],[-1]])
inn = np.full_like(st, -1)
try:
    print(_calculate_transition_events(atom_sites=st, atom_inner_sites=inn))
except Exception as e:
    print("EXC", type(e).__name__, e)
# outer constant, inner toggles
st = np.array([[0,-1],[0,1],[0,1],[0,-1]])
inn = np.array([[0,-1],[-1,1],[0,1],[0,-1]])
print(_calculate_transition_events(atom_sites=st, atom_inner_sites=inn))
ev = _calculate_transition_events(atom_sites=st, atom_inner_sites=inn)
print(_calculate_transitions_matrix(ev, n_sites=3))
# collective break
from gemdat.collective import Collective
from pymatgen.core import Lattice, Structure
lat = Lattice(np.eye(3)*10)
sites = Structure(lat, ['Li']*4, [[0.1,0.1,0.1],[0.15,0.1,0.1],[0.2,0.1,0.1],[0.25,0.1,0.1]])
class J: pass
j=J(); j.data = pd.DataFrame({'atom index':[0,1,2],'start site':[0,1,2],'destination site':[1,2,3],'start time':[0,10,2],'stop time':[1,11,12]})
c = Collective(jumps=j, sites=sites, lattice=lat, max_steps=3, max_dist=1)
print("collective pairs", [(int(a['atom index']), int(b['atom index'])) for a,b in c.collective], c.n_solo_jumps, c.n_coll_jumps)
# path wrapped_sites
from gemdat.path import Pathway
p = Pathway(sites=[(5,7,9)], energy=[0.], dims=(4,6,8))
print(p.wrapped_sites(), "expected [(1,1,1)]")
