import numpy as np, warnings, traceback, os, time
warnings.filterwarnings('ignore')
import MDAnalysis as mda
from gemdat import Trajectory
n=4
u = mda.Universe.empty(n, n_residues=2, atom_resindex=[0,0,1,1], trajectory=True)
u.add_TopologyAttr('name', ['LI1','LI2','S1','P1'])
u.add_TopologyAttr('type', ['Li','Li','S','P'])
u.add_TopologyAttr('resname', ['AAA','BBB'])
u.add_TopologyAttr('resid', [1,2])
rng=np.random.default_rng(0)
frames=[rng.random((n,3))*6 for _ in range(4)]
u.atoms.positions = frames[0]
u.dimensions=[6,7,8,90,90,90]
u.atoms.write('gm/top.gro')
with mda.Writer('gm/traj.xtc', n) as w:
    for i,fr in enumerate(frames):
        u.atoms.positions = fr
        u.dimensions=[6,7,8,90,90,90]
        u.trajectory.ts.time = i*2.0
        w.write(u.atoms)
try:
    t = Trajectory.from_gromacs(topology_file='gm/top.gro', coords_file='gm/traj.xtc', temperature=300)
    print(t.species, t.positions.shape, t.time_step, os.listdir('gm'))
    t2 = Trajectory.from_gromacs(topology_file='gm/top.gro', coords_file='gm/traj.xtc', temperature=300)
    print(np.array_equal(t.positions,t2.positions))
except Exception:
    traceback.print_exc()
