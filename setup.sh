#!/bin/bash
# Offline setup: make sure hypothesis is importable in /venv (it normally already is) and
# install atheris (thorough-tier fuzz targets) beside the framework.  Nothing is fetched.
cd "$(dirname "$0")" || exit 1
export PIP_NO_INDEX=1
/venv/bin/python -c 'import hypothesis' 2>/dev/null || /venv/bin/pip install -q --no-index --find-links /opt/veriftools/wheels hypothesis || exit 1
if ! PYTHONPATH=.deps /venv/bin/python -c 'import atheris' 2>/dev/null; then
  /venv/bin/pip install -q --no-index --find-links /opt/veriftools/wheels --target .deps atheris || echo "setup: atheris not installed (fuzz targets will be skipped)"
fi
mkdir -p evidence replays
/venv/bin/python -c 'import hypothesis, numpy; print("setup ok: hypothesis", hypothesis.__version__)'
