"""Writers for small simulation output files (LAMMPS data + xyz, minimal vasprun.xml, GROMACS gro + xtc) so that the
real loaders of gemdat can be exercised offline on generated inputs."""
from __future__ import annotations

import os

import numpy as np


def write_lammps(d, matrix, symbols, frames, numeric_types=False):
    from pymatgen.core import Lattice, Structure
    from pymatgen.io.lammps.data import LammpsData

    lat = Lattice(np.array(matrix, float))
    s = Structure(lat, symbols, np.array(frames[0]) % 1.0)
    ld = LammpsData.from_structure(s, atom_style='atomic')
    data_file = os.path.join(d, 'data.txt')
    ld.write_file(data_file)
    lat2 = ld.structure.lattice  # the orientation LAMMPS uses
    types = []
    for sym in symbols:
        if sym not in types:
            types.append(sym)
    coords_file = os.path.join(d, 'coords.xyz')
    with open(coords_file, 'w') as f:
        for k, fr in enumerate(frames):
            f.write(f'{len(symbols)}\nframe {k}\n')
            for sym, fc in zip(symbols, fr):
                c = lat2.get_cartesian_coords(np.array(fc))
                name = str(types.index(sym) + 1) if numeric_types else sym
                f.write('%s %.6f %.6f %.6f\n' % (name, *c))
    return {'coords_file': coords_file, 'data_file': data_file, 'types': {str(i + 1): t for i, t in enumerate(types)}}


def _structure_xml(name, lat, frac):
    nm = f' name="{name}"' if name else ''
    rec = np.linalg.inv(lat).T
    s = [f'<structure{nm}>', '<crystal>', '<varray name="basis">']
    s += ['<v> %.8f %.8f %.8f </v>' % tuple(r) for r in lat]
    s += ['</varray>', '<i name="volume"> %.8f </i>' % abs(np.linalg.det(lat)), '<varray name="rec_basis">']
    s += ['<v> %.8f %.8f %.8f </v>' % tuple(r) for r in rec]
    s += ['</varray>', '</crystal>', '<varray name="positions">']
    s += ['<v> %.8f %.8f %.8f </v>' % tuple(r) for r in frac]
    s += ['</varray>', '</structure>']
    return '\n'.join(s)


def write_vasprun(d, matrix, symbols, frames, potim=2.0, tebeg=300.0):
    lat = np.array(matrix, float)
    n = len(frames)
    out = ['<?xml version="1.0" encoding="ISO-8859-1"?>', '<modeling>',
           '<generator><i name="program" type="string">vasp </i><i name="version" type="string">5.4.4  </i></generator>',
           '<incar><i type="int" name="IBRION"> 0</i><i name="POTIM"> %.4f</i><i name="TEBEG"> %.4f</i><i type="int" name="NSW"> %d</i></incar>' % (potim, tebeg, n),
           '<parameters><separator name="ionic"><i type="int" name="NSW"> %d</i><i type="int" name="IBRION"> 0</i><i name="POTIM"> %.4f</i></separator>'
           '<separator name="electronic"><i type="int" name="NELM"> 60</i></separator><separator name="ionic md"><i name="TEBEG"> %.4f</i><i name="TEEND"> %.4f</i></separator></parameters>' % (n, potim, tebeg, tebeg),
           '<atominfo>', '<atoms> %d </atoms>' % len(symbols), '<types> %d </types>' % len(set(symbols)),
           '<array name="atoms"><dimension dim="1">ion</dimension><field type="string">element</field><field type="int">atomtype</field><set>']
    types = []
    for s in symbols:
        if s not in types:
            types.append(s)
    for s in symbols:
        out.append('<rc><c>%-2s</c><c>%4d</c></rc>' % (s, types.index(s) + 1))
    out += ['</set></array>',
            '<array name="atomtypes"><dimension dim="1">type</dimension><field type="int">atomspertype</field><field type="string">element</field><field>mass</field><field>valence</field><field type="string">pseudopotential</field><set>']
    for tp in types:
        out.append('<rc><c>%4d</c><c>%-2s</c><c> 1.0</c><c> 1.0</c><c>  PAW_PBE %s 01Jan2000 </c></rc>' % (symbols.count(tp), tp, tp))
    out += ['</set></array>', '</atominfo>']
    out.append(_structure_xml('initialpos', lat, frames[0]))
    for fr in frames:
        out.append('<calculation>')
        out.append(_structure_xml('', lat, fr))
        out.append('<energy><i name="e_fr_energy"> -1.0 </i><i name="e_wo_entrp"> -1.0 </i><i name="e_0_energy"> -1.0 </i></energy>')
        out.append('</calculation>')
    out.append(_structure_xml('finalpos', lat, frames[-1]))
    out.append('</modeling>')
    fn = os.path.join(d, 'vasprun.xml')
    with open(fn, 'w') as f:
        f.write('\n'.join(out))
    return {'xml_file': fn}


def write_gromacs(d, lengths, symbols, frames, dt_ps=2.0):
    import MDAnalysis as mda

    n = len(symbols)
    u = mda.Universe.empty(n, n_residues=1, atom_resindex=[0] * n, trajectory=True)
    u.add_TopologyAttr('name', [f'{s.upper()}{i + 1}' for i, s in enumerate(symbols)])
    u.add_TopologyAttr('type', list(symbols))
    u.add_TopologyAttr('resname', ['AAA'])
    u.add_TopologyAttr('resid', [1])
    dims = [float(x) for x in lengths] + [90.0, 90.0, 90.0]
    cart = [np.array(fr) % 1.0 * np.array(lengths)[None, :] for fr in frames]
    u.atoms.positions = cart[0]
    u.dimensions = dims
    top = os.path.join(d, 'top.gro')
    xtc = os.path.join(d, 'traj.xtc')
    u.atoms.write(top)
    with mda.Writer(xtc, n) as w:
        for i, fr in enumerate(cart):
            u.atoms.positions = fr
            u.dimensions = dims
            u.trajectory.ts.time = i * dt_ps
            w.write(u.atoms)
    return {'topology_file': top, 'coords_file': xtc}
