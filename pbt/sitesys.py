"""Shared helpers for the site-based properties (C02, C05, C07, C11, C12): build gemdat objects from a hopping-system
case and compute the expected site states by brute force."""
from __future__ import annotations

import numpy as np

from . import cases, oracle
from .gen import DELTA


def radii_per_site(case):
    r = case['radius']
    return np.array([r[lab] if isinstance(r, dict) else r for lab in case['sites']['labels']], float)


def expected_states(case, frac=None, fraction=1.0, band=DELTA, radii=None):
    """(T, N) expected site index, -1 for none, -2 where the outcome is unconstrained (inside the guard band or
    more than one candidate).  Also returns whether any decisive assignment goes through a non-zero periodic image."""
    M = np.array(case['lattice']['matrix'], float)
    sf = np.array(case['sites']['frac'], float)
    pos = np.array(case['diff'] if frac is None else frac, float)
    T, N, _ = pos.shape
    rr = (radii_per_site(case) if radii is None else np.asarray(radii, float)) * fraction
    flat = pos.reshape(-1, 3)
    vec, dist, image = oracle.min_image_vectors(sf, flat, M, return_image=True)  # (S, P)
    inside = dist < (rr[:, None] - band)
    maybe = (dist < (rr[:, None] + band)) & ~inside
    out = np.full(flat.shape[0], -1)
    n_in = inside.sum(axis=0)
    idx = inside.argmax(axis=0)
    out[n_in == 1] = idx[n_in == 1]
    out[(n_in > 1) | maybe.any(axis=0)] = -2
    # periodic image used: the decisive (site, point) pair has a non-zero image once both are wrapped into [0,1)
    wrapped_img = np.round((flat[None, :, :] - np.floor(flat[None, :, :])) - (sf[:, None, :] - np.floor(sf[:, None, :])) - (vec @ np.linalg.inv(M)))
    via_image = bool(np.any(inside & np.any(wrapped_img != 0, axis=-1)))
    return out.reshape(T, N), via_image


def atom_layout(case, specie='Li'):
    """(symbols, coords (T, N, 3), columns of the diffusers) of the full trajectory.  Diffusers come first and framework atoms
    after them unless the case carries a 'merge' list: then the two groups are interleaved in that generated order (the relative
    order inside each group is kept, so column k of the site states is still diffuser k)."""
    diff = np.array(case['diff'], float)
    T, Nd, _ = diff.shape
    if case.get('diff_shift') is not None:
        diff = diff + np.array(case['diff_shift'], float)  # coordinates given in other periodic images
    fw = case.get('framework')
    if not fw:
        return [specie] * Nd, diff, list(range(Nd))
    fc = np.array(fw['coords'], float)
    Nf = fc.shape[1]
    order = [('d', i) for i in range(Nd)] + [('f', j) for j in range(Nf)]
    if case.get('merge'):
        picks = list(case['merge'])
        order, i, j, k = [], 0, 0, 0
        while i < Nd or j < Nf:
            take_d = (picks[k % len(picks)] == 0) if (i < Nd and j < Nf) else i < Nd
            k += 1
            if take_d:
                order.append(('d', i))
                i += 1
            else:
                order.append(('f', j))
                j += 1
    symbols = [specie if g == 'd' else fw['symbols'][n] for g, n in order]
    coords = np.stack([diff[:, n] if g == 'd' else fc[:, n] for g, n in order], axis=1)
    return symbols, coords, [k for k, (g, _) in enumerate(order) if g == 'd']


def full_trajectory(case, specie='Li', species_kind='Species'):
    symbols, coords, _ = atom_layout(case, specie)
    return cases.trajectory(coords, symbols, case['lattice']['matrix'], case.get('time_step', 1e-15), case.get('temperature', 300.0), species_kind)


def sites(case, specie='Li'):
    frac = np.array(case['sites']['frac'], float)
    if case['sites'].get('image_shift') is not None:
        frac = frac + np.array(case['sites']['image_shift'], float)
    M = np.array(case['lattice']['matrix'], float) * float(case.get('sites_cell_scale', 1.0))  # the site structure may come from a slightly different cell
    if case.get('sites_cell_rot') is not None:  # ... or carry the same cell in another orientation
        M = M @ oracle.quat_to_rot(case['sites_cell_rot']).T
    return cases.sites_structure(M, frac, case['sites']['labels'], specie)


def radius_arg(case):
    r = case['radius']
    return dict(r) if isinstance(r, dict) else float(r)
