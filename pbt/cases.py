"""case dict -> pymatgen / gemdat objects.  Pure functions; imported only by property modules."""
from __future__ import annotations

import numpy as np


def lattice(case_lat):
    from pymatgen.core import Lattice

    return Lattice(np.array(case_lat['matrix'], float))


def species_objs(symbols, kind='Species'):
    from pymatgen.core import Element, Species

    if kind == 'Species-mixed':
        # one element in two oxidation states (every other occurrence), e.g. Fe2+ / Fe3+
        base = {'Li': 1, 'Na': 1, 'S': -2, 'O': -2, 'P': 3, 'Si': 2}
        seen = {}
        out = []
        for s in symbols:
            seen[s] = seen.get(s, 0) + 1
            out.append(Species(s, base.get(s, 0) + (2 if (seen[s] % 2 == 0 and s not in ('Li',)) else 0)))
        return out
    if kind == 'Species-oxi':
        return [Species(s, {'Li': 1, 'Na': 1, 'S': -2, 'O': -2, 'P': 5, 'Si': 4}.get(s, 0)) for s in symbols]
    if kind == 'Element':
        return [Element(s) for s in symbols]
    if kind == 'mixed':
        return [Element(s) if i % 2 else Species(s) for i, s in enumerate(symbols)]
    return [Species(s) for s in symbols]


def trajectory(coords, symbols, matrix, time_step=1e-15, temperature=300.0, kind='Species', **kw):
    from gemdat.trajectory import Trajectory

    return Trajectory(
        species=species_objs(symbols, kind),
        coords=np.array(coords, float),
        lattice=np.array(matrix, float),
        time_step=time_step,
        metadata={'temperature': temperature},
        **kw,
    )


DERIVE_HOW = ['slice', 'slice', 'filter', 'extend']


def derive_strategy():
    """generated description of how the trajectory under test is obtained from a larger / other one (None = built directly)"""
    from hypothesis import strategies as st

    return st.one_of(st.none(), st.none(), st.fixed_dictionaries({'how': st.sampled_from(DERIVE_HOW), 'pre': st.integers(0, 7), 'post': st.integers(0, 5),
                                                                   'touch': st.booleans(), 'cut': st.integers(1, 10**6)}))


def derived_trajectory(coords, symbols, matrix, time_step=1e-15, temperature=300.0, kind='Species', derive=None):
    """The same trajectory as trajectory(coords, ...), but obtained the way users obtain most of their objects: as a frame range of
    a longer run, as a species selection of a run with more atoms, or as two pieces joined with extend().
    Selecting / slicing / splitting / extending return exactly the corresponding frames and atoms (C15), so every property of the
    directly built trajectory must hold for the derived one."""
    from .runner import gcall

    coords = np.array(coords, float)
    T, N, _ = coords.shape
    if not derive:
        return trajectory(coords, symbols, matrix, time_step, temperature, kind)
    how, pre, post = derive['how'], derive['pre'], derive['post']

    def junk(n, phase):
        k = np.arange(n).reshape(n, 1, 1)
        a = np.arange(N).reshape(1, N, 1)
        ax = np.arange(3).reshape(1, 1, 3)
        return coords[:1] + 0.31 * np.sin(1.0 + phase + 0.7 * k + 1.3 * a + 2.1 * ax)

    if how == 'slice':
        parent = trajectory(np.concatenate([junk(pre, 0.0), coords, junk(post, 0.5)], axis=0), symbols, matrix, time_step, temperature, kind)
        if derive['touch']:
            gcall(lambda: parent.displacements)
        return gcall(lambda: parent[pre:pre + T])
    if how == 'filter':
        extra = 1 + pre % 3
        cols, syms, j = [], [], 0
        filler = junk(T, 0.25)
        for i in range(N):
            if i % 2 == 0 and j < extra:
                cols.append(filler[:, i] + 0.2)
                syms.append('Cl')
                j += 1
            cols.append(coords[:, i])
            syms.append(symbols[i])
        parent = trajectory(np.stack(cols, axis=1), syms, matrix, time_step, temperature, kind)
        if derive['touch']:
            gcall(lambda: parent.displacements)
        return gcall(parent.filter, sorted(set(symbols)))
    if how == 'extend':
        if T < 2:
            return trajectory(coords, symbols, matrix, time_step, temperature, kind)
        cut = 1 + derive['cut'] % (T - 1)
        a = trajectory(coords[:cut], symbols, matrix, time_step, temperature, kind)
        b = trajectory(coords[cut:], symbols, matrix, time_step, temperature, kind)
        if derive['touch']:
            gcall(lambda: a.displacements)
            gcall(lambda: b.displacements)
        gcall(a.extend, b)
        return a
    raise ValueError(how)


def sites_structure(matrix, frac, labels, specie='Li'):
    from pymatgen.core import Structure

    return Structure(
        lattice=np.array(matrix, float),
        species=[specie] * len(frac),
        coords=np.array(frac, float),
        labels=list(labels),
    )


PRELUDE_OPS = ['displacements', 'positions', 'msd', 'distances', 'cumulative', 'drift', 'volume']


def prelude(t, ops):
    """read-only queries issued on a trajectory before the analysis under test (they switch the internal representation;
    the analysis must not depend on which representation the object happens to be in)"""
    from .runner import gcall

    for op in ops or []:
        if op == 'displacements':
            gcall(lambda: t.displacements)
        elif op == 'positions':
            gcall(lambda: t.positions)
        elif op == 'msd':
            gcall(t.mean_squared_displacement)
        elif op == 'distances':
            gcall(t.distances_from_base_position)
        elif op == 'cumulative':
            gcall(lambda: t.cumulative_displacements)
        elif op == 'drift':
            gcall(t.drift)
        elif op == 'volume':
            import numpy as np

            gcall(t.to_volume, resolution=float(np.linalg.norm(t.get_lattice().matrix, axis=1).min()) / 2.0)
