"""case dict -> pymatgen / gemdat objects.  Pure functions; imported only by property modules."""
from __future__ import annotations

import numpy as np


def lattice(case_lat):
    from pymatgen.core import Lattice

    return Lattice(np.array(case_lat['matrix'], float))


def species_objs(symbols, kind='Species'):
    from pymatgen.core import Element, Species

    if kind == 'Species-mixed':
        # one element in two oxidation states (every other occurrence), e.g. Fe2+ / Fe3+
        base = {'Li': 1, 'Na': 1, 'S': -2, 'O': -2, 'P': 3, 'Si': 2}
        seen = {}
        out = []
        for s in symbols:
            seen[s] = seen.get(s, 0) + 1
            out.append(Species(s, base.get(s, 0) + (2 if (seen[s] % 2 == 0 and s not in ('Li',)) else 0)))
        return out
    if kind == 'Species-oxi':
        return [Species(s, {'Li': 1, 'Na': 1, 'S': -2, 'O': -2, 'P': 5, 'Si': 4}.get(s, 0)) for s in symbols]
    if kind == 'Element':
        return [Element(s) for s in symbols]
    if kind == 'mixed':
        return [Element(s) if i % 2 else Species(s) for i, s in enumerate(symbols)]
    return [Species(s) for s in symbols]


def trajectory(coords, symbols, matrix, time_step=1e-15, temperature=300.0, kind='Species', **kw):
    from gemdat.trajectory import Trajectory

    return Trajectory(
        species=species_objs(symbols, kind),
        coords=np.array(coords, float),
        lattice=np.array(matrix, float),
        time_step=time_step,
        metadata={'temperature': temperature},
        **kw,
    )


def sites_structure(matrix, frac, labels, specie='Li'):
    from pymatgen.core import Structure

    return Structure(
        lattice=np.array(matrix, float),
        species=[specie] * len(frac),
        coords=np.array(frac, float),
        labels=list(labels),
    )


PRELUDE_OPS = ['displacements', 'positions', 'msd', 'distances', 'cumulative', 'drift', 'volume']


def prelude(t, ops):
    """read-only queries issued on a trajectory before the analysis under test (they switch the internal representation;
    the analysis must not depend on which representation the object happens to be in)"""
    from .runner import gcall

    for op in ops or []:
        if op == 'displacements':
            gcall(lambda: t.displacements)
        elif op == 'positions':
            gcall(lambda: t.positions)
        elif op == 'msd':
            gcall(t.mean_squared_displacement)
        elif op == 'distances':
            gcall(t.distances_from_base_position)
        elif op == 'cumulative':
            gcall(lambda: t.cumulative_displacements)
        elif op == 'drift':
            gcall(t.drift)
        elif op == 'volume':
            import numpy as np

            gcall(t.to_volume, resolution=float(np.linalg.norm(t.get_lattice().matrix, axis=1).min()) / 2.0)
