"""atheris (coverage-guided, libFuzzer) targets for the two Python-level classifiers: the jump state machine (C04) and the
collective-pair scan (C12).  The semantic oracle of the property runs inside the target.  Invoked by the runner as
    python -m pbt.fuzz_targets <jumps|collective> <stats.json> <replay.json> [libFuzzer args...]
"""
from __future__ import annotations

import json
import os
import sys

ROOT = os.path.dirname(os.path.dirname(os.path.abspath(__file__)))
REPO = os.environ.get('VERIF_REPO', '/repo')
sys.path.insert(0, os.path.join(REPO, 'src'))
sys.path.insert(0, ROOT)

import atheris  # noqa: E402

with atheris.instrument_imports(include=['gemdat.jumps', 'gemdat.transitions', 'gemdat.collective']):
    import gemdat.collective  # noqa: F401
    import gemdat.jumps  # noqa: F401
    import gemdat.transitions  # noqa: F401

from pbt.runner import Skip, Violation  # noqa: E402

STATS = {'execs': 0, 'nontrivial': 0, 'skipped': 0, 'labels': {}, 'samples': []}
TARGET, STATS_FILE, REPLAY_FILE = sys.argv[1], sys.argv[2], sys.argv[3]


def dump():
    with open(STATS_FILE + '.tmp', 'w') as f:
        json.dump(STATS, f)
    os.replace(STATS_FILE + '.tmp', STATS_FILE)


def decode_jumps(data):
    fdp = atheris.FuzzedDataProvider(data)
    n_atoms = fdp.ConsumeIntInRange(1, 2)
    n_sites = fdp.ConsumeIntInRange(1, 3)
    res = [0, fdp.ConsumeIntInRange(0, 6), fdp.ConsumeIntInRange(0, 12)]
    equal = fdp.ConsumeBool()
    syms = [(-1, -1)]
    for s in range(n_sites):
        syms += [(s, s), (s, -1)]
    T = fdp.ConsumeIntInRange(2, 40)
    states, inner = [], []
    for _ in range(T):
        rs, ri = [], []
        for _a in range(n_atoms):
            o, i = syms[fdp.ConsumeIntInRange(0, len(syms) - 1)]
            rs.append(o)
            ri.append(o if equal else i)
        states.append(rs)
        inner.append(ri)
    return {'states': states, 'inner': inner, 'residences': sorted(set(res))}


def decode_collective(data):
    fdp = atheris.FuzzedDataProvider(data)
    n_sites = fdp.ConsumeIntInRange(2, 5)
    # sites on a line in a 12 A cubic cell (spacing 1.3 A): distances are simple, the scan logic is what is fuzzed
    frac = [[(0.05 + 0.11 * k) % 1.0, 0.5, 0.5] for k in range(n_sites)]
    window = fdp.ConsumeIntInRange(0, 12)
    cutoff = [0.5, 1.4, 2.7, 4.0][fdp.ConsumeIntInRange(0, 3)]
    n_atoms = fdp.ConsumeIntInRange(1, 4)
    rows = []
    for a in range(n_atoms):
        t = fdp.ConsumeIntInRange(0, 10)
        site = fdp.ConsumeIntInRange(0, n_sites - 1)
        for _ in range(fdp.ConsumeIntInRange(0, 5)):
            d = fdp.ConsumeIntInRange(0, n_sites - 2)
            d = d + 1 if d >= site else d
            tr = fdp.ConsumeIntInRange(1, 30)
            rows.append([a, site, d, t, t + tr])
            site = d
            t = t + tr + fdp.ConsumeIntInRange(0, 15)
    if not rows:
        rows = [[0, 0, 1, 0, 1]]
    lat = {'family': 'cubic', 'orient': 'lower', 'params': [12, 12, 12, 90, 90, 90], 'matrix': [[12.0, 0, 0], [0, 12.0, 0], [0, 0, 12.0]]}
    return {'lattice': lat, 'sites': {'frac': frac, 'labels': ['A'] * n_sites}, 'rows': rows, 'window': window, 'cutoff': cutoff}


if TARGET == 'jumps':
    from pbt.props.c04 import run as RUN

    DECODE = decode_jumps
else:
    from pbt.props.c12 import run_table as RUN

    DECODE = decode_collective


def one(data):
    if len(data) < 4:
        return
    case = DECODE(data)
    STATS['execs'] += 1
    try:
        info = RUN(case)
    except Skip:
        STATS['skipped'] += 1
        return
    except Violation as v:
        with open(REPLAY_FILE, 'w') as f:
            json.dump({'clause': v.clause, 'detail': v.detail, 'case': case}, f)
        dump()
        raise
    if info.get('nontrivial'):
        STATS['nontrivial'] += 1
        if len(STATS['samples']) < 2:
            STATS['samples'].append(case)
    for lab in info.get('labels', ()):
        STATS['labels'][lab] = STATS['labels'].get(lab, 0) + 1
    if STATS['execs'] % 100 == 0:
        dump()


if __name__ == '__main__':
    atheris.Setup([sys.argv[0]] + sys.argv[4:], one)
    atheris.Fuzz()
