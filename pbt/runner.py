"""Runner for the property checks: scheduling, seeding, sharding, evidence, exit codes.

usage (through ./check):  python -m pbt.runner C07 [--tier quick|thorough] [--replay file]
                          [--only sub1,sub2] [--scale f] [--jobs n]

exit 0  property held on everything explored (KNOWN-FINDING lines may be printed)
exit 1  a violation not listed in known_findings.json was found; prints
        VIOLATION property=<id> replay=<path>
exit 2  harness error (generator, oracle, I/O) -- never a VIOLATION line
"""
from __future__ import annotations

import argparse
import collections
import hashlib
import importlib
import io
import json
import multiprocessing as mp
import os
import sys
import time
import traceback
import zlib
from contextlib import contextmanager, redirect_stderr, redirect_stdout
from dataclasses import dataclass, field
from typing import Any, Callable

ROOT = os.path.dirname(os.path.dirname(os.path.abspath(__file__)))
REPO = os.environ.get('VERIF_REPO', '/repo')


# --------------------------------------------------------------------------- outcomes
class Violation(Exception):
    """The code under test broke a clause of the property."""

    def __init__(self, clause: str, detail: str = ''):
        super().__init__(f'{clause}: {detail}')
        self.clause = clause
        self.detail = detail


class Skip(Exception):
    """Generated case is outside the property's precondition (counted, never a failure)."""


class Raised:
    """Wrapper for a documented exception raised by the code under test."""

    def __init__(self, exc):
        self.exc = exc

    def __repr__(self):
        return f'Raised({self.exc!r})'


_DEVNULL = open(os.devnull, 'w')


@contextmanager
def quiet():
    """gemdat prints cache messages and draws rich progress bars; keep our output clean."""
    import warnings

    with warnings.catch_warnings():
        warnings.simplefilter('ignore')
        with redirect_stdout(_DEVNULL), redirect_stderr(_DEVNULL):
            yield


def gcall(fn, *a, allow=(), clause='unexpected-exception', **k):
    """Call into gemdat.  Exceptions of a type in `allow` are a legal outcome (returned as
    Raised); any other exception raised by the code under test is a Violation."""
    try:
        with quiet():
            return fn(*a, **k)
    except allow as e:  # type: ignore[misc]
        return Raised(e)
    except (Violation, Skip):
        raise
    except Exception as e:  # noqa: BLE001
        tb = traceback.extract_tb(e.__traceback__)
        where = ''
        for fr in reversed(tb):
            if '/gemdat/' in fr.filename:
                where = f'{os.path.basename(fr.filename)}:{fr.lineno}'
                break
        raise Violation(clause, f'{type(e).__name__}: {str(e)[:200]} at {where}') from e


# --------------------------------------------------------------------------- sub-checks
@dataclass
class Sub:
    """One sub-check of a property.

    kind 'hyp'   : strategy(tier) -> hypothesis strategy of JSON-able case dicts;
                   run(case) -> info dict {'nontrivial': bool, 'labels': [..]}
    kind 'enum'  : size(tier) -> int and case_at(tier, index) -> case; run(case) as above
    kind 'machine': machine(tier) -> RuleBasedStateMachine subclass whose instances keep
                   a JSON-able `.log`; run(log_case) replays a log without Hypothesis;
                   instance attribute `.info` gives the info dict at teardown
    """

    name: str
    kind: str
    run: Callable[[Any], dict]
    rule: str
    strategy: Callable[[str], Any] | None = None
    size: Callable[[str], int] | None = None
    case_at: Callable[[str, int], Any] | None = None
    machine: Callable[[str], Any] | None = None
    n: dict = field(default_factory=lambda: {'quick': 200, 'thorough': 5000})
    shards: dict = field(default_factory=lambda: {'quick': 2, 'thorough': 16})
    steps: dict = field(default_factory=lambda: {'quick': 30, 'thorough': 50})
    exhaustive: bool = False
    target: str | None = None  # kind 'fuzz': name of the atheris target in pbt/fuzz_targets.py
    shrink: bool = True  # False for sub-checks whose single evaluation takes seconds: the first failing case is reported as generated


def canon(case) -> str:
    return json.dumps(case, sort_keys=True, separators=(',', ':'))


def case_hash(case) -> int:
    return int.from_bytes(hashlib.sha1(canon(case).encode()).digest()[:8], 'big')


class Result:
    def __init__(self, sub: str, shard: int):
        self.sub = sub
        self.shard = shard
        self.evaluations = 0
        self.nontrivial = set()
        self.n_nontrivial = 0
        self.labels = collections.Counter()
        self.samples = []
        self.skipped = 0
        self.excluded = collections.Counter()
        self.violation = None  # (clause, detail, case)
        self.error = None
        self.wall = 0.0
        self.stopped_early = False

    def record(self, case, info, hashed=True):
        info = info or {}
        # a case may stand for a block of `count` elementary evaluations (vectorised enumerations)
        count = int(info.get('count', 1))
        self.evaluations += count
        for lab in info.get('labels', ()):
            self.labels[lab] += 1
        if info.get('nontrivial'):
            self.n_nontrivial += int(info.get('nontrivial_count', count))
            if hashed:
                self.nontrivial.add(case_hash(case))
            if len(self.samples) < 2:
                self.samples.append(case)


# --------------------------------------------------------------------------- stateful machines
def log_machine_base():
    """Base class for stateful checks: every rule funnels a JSON-able op through step(), which logs it, so the
    shrunk failing history is a plain list that `replay_log` can re-execute without Hypothesis."""
    from hypothesis.stateful import RuleBasedStateMachine

    class LogMachine(RuleBasedStateMachine):
        def __init__(self):
            super().__init__()
            self.log = []
            self._failed = False
            self.setup()

        def setup(self):
            pass

        def apply(self, op):  # pragma: no cover - overridden
            raise NotImplementedError

        def finish(self):
            """final checks through the public API (called at teardown and at the end of a replay)"""

        def step(self, op):
            self.log.append(op)
            try:
                self.apply(op)
            except Violation:
                self._failed = True
                raise

        def info(self):
            return {}

        def teardown(self):
            if not self._failed:
                try:
                    self.finish()
                except Violation:
                    self._failed = True
                    raise

    return LogMachine


def replay_log(machine_cls, log):
    m = machine_cls()
    for op in log:
        m.step(op)
    m.finish()
    return m.info()


# --------------------------------------------------------------------------- findings
def load_findings(prop: str):
    path = os.path.join(ROOT, 'known_findings.json')
    if not os.path.exists(path):
        return []
    data = json.load(open(path))
    return [f for f in data.get('findings', []) if f['property'] == prop]


def match_open_finding(mod, findings, sub, case, v: Violation):
    sigs = getattr(mod, 'SIGNATURES', {})
    for f in findings:
        if f.get('status') != 'open':
            continue
        fn = sigs.get(f['signature'])
        if fn is None:
            continue
        try:
            if fn(sub, case, v):
                return f
        except Exception:  # a signature that cannot decide does not attribute
            continue
    return None


# --------------------------------------------------------------------------- workers
def derive_seed(seed: int, prop: str, sub: str, shard: int) -> int:
    return zlib.crc32(f'{seed}/{prop}/{sub}/{shard}'.encode())


def _settings(n, tier, steps=None, shrink=True):
    from hypothesis import HealthCheck, Phase, settings

    kw = dict(
        max_examples=n,
        database=None,
        deadline=None,
        derandomize=False,
        report_multiple_bugs=False,
        print_blob=False,
        suppress_health_check=list(HealthCheck),
        phases=[Phase.explicit, Phase.generate, Phase.shrink] if shrink else [Phase.explicit, Phase.generate],
    )
    if steps is not None:
        kw['stateful_step_count'] = steps
    return settings(**kw)


SHRINK_BUDGET_S = {'quick': 45.0, 'thorough': 240.0}


def _worker(args):
    prop, subname, shard, nshards, seed, tier, scale, budget_s = args
    t0 = time.time()
    res = Result(subname, shard)
    try:
        mod = importlib.import_module(f'pbt.props.{prop.lower()}')
        sub = next(s for s in mod.SUBS if s.name == subname)
        findings = load_findings(prop)
        n = max(1, int(sub.n[tier] * scale))
        if sub.kind == 'enum':
            _run_enum(mod, sub, res, findings, shard, nshards, tier)
        elif sub.kind == 'hyp':
            _run_hyp(mod, sub, res, findings, derive_seed(seed, prop, subname, shard), n, tier, t0, budget_s)
        elif sub.kind == 'fuzz':
            _run_fuzz(mod, sub, res, findings, derive_seed(seed, prop, subname, shard), n, tier, shard)
        elif sub.kind == 'machine':
            _run_machine(mod, sub, res, findings, derive_seed(seed, prop, subname, shard), n, tier, t0, budget_s)
        else:
            raise RuntimeError(f'unknown kind {sub.kind}')
    except BaseException:  # noqa: BLE001
        res.error = traceback.format_exc()
    res.wall = time.time() - t0
    return res


def _run_enum(mod, sub, res, findings, shard, nshards, tier):
    total = sub.size(tier)
    for idx in range(shard, total, nshards):
        case = sub.case_at(tier, idx)
        try:
            info = sub.run(case)
        except Skip:
            res.skipped += 1
            continue
        except Violation as v:
            f = match_open_finding(mod, findings, sub.name, case, v)
            if f:
                res.excluded[f['key']] += 1
                res.evaluations += 1
                continue
            res.violation = (v.clause, v.detail, case)
            return
        res.record(case, info, hashed=False)


def _run_hyp(mod, sub, res, findings, seedval, n, tier, t0, budget_s):
    import hypothesis
    from hypothesis import given

    state = {'last': None, 'fail_t': None, 'known': {}, 'last_fail': None}

    def body(case):
        if budget_s and state['fail_t'] is None and time.time() - t0 > budget_s:
            res.stopped_early = True
            return
        if state['fail_t'] is not None and time.time() - state['fail_t'] > SHRINK_BUDGET_S[tier]:
            # shrink budget used up: cases already known to fail keep failing (without being re-executed),
            # every other candidate is declined, so Hypothesis settles on the smallest failure found so far
            k = state['known'].get(canon(case))
            if k is None:
                return
            state['last'] = case
            raise Violation(*k)
        state['last'] = case
        try:
            info = sub.run(case)
        except Skip:
            res.skipped += 1
            return
        except Violation as v:
            f = match_open_finding(mod, findings, sub.name, case, v)
            if f:
                res.excluded[f['key']] += 1
                res.evaluations += 1
                return
            if state['fail_t'] is None:
                state['fail_t'] = time.time()
            if len(state['known']) < 5000:
                state['known'][canon(case)] = (v.clause, v.detail)
            state['last_fail'] = (v.clause, v.detail, case)
            raise
        if state['fail_t'] is None:
            res.record(case, info)

    test = hypothesis.seed(seedval)(_settings(n, tier, shrink=sub.shrink)(given(sub.strategy(tier))(body)))
    try:
        test()
    except Violation as v:
        res.violation = (v.clause, v.detail, state['last'])
    except BaseException as e:  # noqa: BLE001
        # Hypothesis reports e.g. FlakyFailure when a replay behaves differently.  A violation that was observed is
        # still reported, provided it reproduces once more outside Hypothesis; otherwise it is a harness error.
        if state['last_fail'] is None or isinstance(e, KeyboardInterrupt):
            raise
        clause, detail, case = state['last_fail']
        try:
            sub.run(case)
            detail += ' [observed during generation; the same case passed when re-executed - the outcome depends on process state such as memory addresses]'
        except Violation as v2:
            clause, detail = v2.clause, v2.detail
        except Exception:  # noqa: BLE001
            pass
        res.violation = (clause, detail, case)


def _run_machine(mod, sub, res, findings, seedval, n, tier, t0, budget_s):
    import hypothesis
    from hypothesis.stateful import run_state_machine_as_test

    M = sub.machine(tier)
    state = {'last': None, 'last_fail': None}

    class Wrapped(M):  # type: ignore[misc,valid-type]
        def __init__(self):
            super().__init__()
            state['last'] = self

        def step(self, op):
            try:
                super().step(op)
            except Violation as v:
                state['last_fail'] = (v.clause, v.detail, list(self.log))
                raise

        def teardown(self):
            try:
                super().teardown()
            except Violation as v:
                state['last_fail'] = (v.clause, v.detail, list(self.log))
                raise
            if not getattr(self, '_failed', False):
                res.record({'log': self.log}, self.info())

    Wrapped.__name__ = M.__name__
    Wrapped.__qualname__ = M.__qualname__
    try:
        # quick tier: Hypothesis' own shrinking of stateful programs can take minutes; the log is minimised greedily below instead
        run_state_machine_as_test(hypothesis.seed(seedval)(Wrapped), settings=_settings(n, tier, sub.steps[tier], shrink=(tier == 'thorough')))
    except Violation as v:
        log = list(state['last'].log) if state['last'] is not None else []
        clause, detail = v.clause, v.detail
        # greedy minimisation: drop one operation at a time (from the end) while the same clause still fails
        t_min = time.time()
        i = len(log) - 1
        while i >= 1 and time.time() - t_min < SHRINK_BUDGET_S[tier]:
            cand = log[:i] + log[i + 1:]
            try:
                sub.run({'log': cand})
            except Violation as v2:
                if v2.clause == clause:
                    log, detail = cand, v2.detail
            except Exception:  # noqa: BLE001
                pass
            i -= 1
        case = {'log': log}
        f = match_open_finding(mod, findings, sub.name, case, v)
        if f:
            res.excluded[f['key']] += 1
        else:
            res.violation = (clause, detail, case)
    except BaseException as e:  # noqa: BLE001
        # e.g. Hypothesis' FlakyFailure: the failing history passed when replayed.  That happens for violations that depend on
        # memory addresses (a new object re-using the address of a collected one).  A violation that was observed is reported.
        if state['last_fail'] is None or isinstance(e, KeyboardInterrupt):
            raise
        clause, detail, log = state['last_fail']
        try:
            sub.run({'log': log})
            detail += ' [observed during generation; the replay of this history passed - allocation dependent]'
        except Violation as v2:
            clause, detail = v2.clause, v2.detail
        except Exception:  # noqa: BLE001
            pass
        res.violation = (clause, detail, {'log': log})


def _run_fuzz(mod, sub, res, findings, seedval, n, tier, shard):
    """coverage-guided campaign (atheris / libFuzzer) in a subprocess; the target carries the property's oracle and writes the
    failing case as JSON before it raises.  Even shards start from an empty corpus, odd shards from a few small inputs."""
    import shutil
    import subprocess
    import tempfile

    if n <= 0:
        return
    try:
        subprocess.run([sys.executable, '-c', 'import atheris'], check=True, capture_output=True, env=dict(os.environ))
    except Exception:  # noqa: BLE001
        res.labels['atheris-not-installed'] += 1
        return
    d = tempfile.mkdtemp(prefix='fuzz_')
    try:
        corpus = os.path.join(d, 'corpus')
        os.makedirs(corpus)
        if shard % 2:
            for k in range(6):
                with open(os.path.join(corpus, f'seed{k}'), 'wb') as f:
                    f.write(bytes((37 * k + 11 * j) % 251 for j in range(8 + 9 * k)))
        stats, replay = os.path.join(d, 'stats.json'), os.path.join(d, 'replay.json')
        cmd = [sys.executable, '-m', 'pbt.fuzz_targets', sub.target, stats, replay, f'-runs={n}', f'-seed={seedval % 2**31 or 1}', '-max_len=160', '-len_control=0',
               f'-artifact_prefix={d}/', corpus]
        p = subprocess.run(cmd, cwd=ROOT, capture_output=True, text=True, timeout=3 * 3600)
        st = json.load(open(stats)) if os.path.exists(stats) else {}
        done = [ln for ln in p.stderr.splitlines() if ln.startswith('Done ')]
        execs = int(done[-1].split()[1]) if done else int(st.get('execs', 0))
        res.evaluations += execs
        res.n_nontrivial += int(st.get('nontrivial', 0) * (execs / max(1, st.get('execs', 1))))
        res.skipped += int(st.get('skipped', 0))
        for k, v in st.get('labels', {}).items():
            res.labels[k] += v
        res.labels['corpus-seeded' if shard % 2 else 'corpus-empty'] += 1
        res.samples.extend(st.get('samples', [])[:2])
        if os.path.exists(replay):
            r = json.load(open(replay))
            v = Violation(r['clause'], r['detail'])
            f = match_open_finding(mod, findings, sub.name, r['case'], v)
            if f:
                res.excluded[f['key']] += 1
            else:
                res.violation = (r['clause'], r['detail'], r['case'])
        elif p.returncode != 0:
            res.error = 'fuzz target exited %d\n%s' % (p.returncode, p.stderr[-2000:])
    finally:
        shutil.rmtree(d, ignore_errors=True)


# --------------------------------------------------------------------------- driver
def _replay_one(mod, subname, case):
    sub = next(s for s in mod.SUBS if s.name == subname)
    return sub.run(case)


def write_replay(prop, subname, seed, case, clause, detail):
    d = os.path.join(ROOT, 'replays')
    os.makedirs(d, exist_ok=True)
    safe = ''.join(ch if (ch.isalnum() or ch in '-_.') else '_' for ch in str(clause))[:80].strip('_')  # replay=<path> must be one shell word
    path = os.path.join(d, f'{prop}-{subname}-{safe}-{seed}.json')
    with open(path, 'w') as f:
        json.dump({'property': prop, 'sub': subname, 'clause': clause, 'detail': detail, 'case': case}, f, indent=1, sort_keys=True)
    return os.path.relpath(path, ROOT)


def main(argv=None):
    ap = argparse.ArgumentParser()
    ap.add_argument('prop')
    ap.add_argument('--tier', default=os.environ.get('VERIF_TIER', 'quick'), choices=['quick', 'thorough'])
    ap.add_argument('--replay')
    ap.add_argument('--only')
    ap.add_argument('--scale', type=float, default=float(os.environ.get('VERIF_SCALE', '1')))
    ap.add_argument('--jobs', type=int, default=int(os.environ.get('VERIF_JOBS', '16')))
    ap.add_argument('--budget', type=float, default=float(os.environ.get('VERIF_BUDGET_S', '0')), help='stop generating after this many seconds (inconclusive, not a failure)')
    ap.add_argument('--no-evidence', action='store_true')
    ap.add_argument('--no-regressions', action='store_true', help='experiments only: skip the regression replay tier')
    a = ap.parse_args(argv)
    prop = a.prop.upper()
    seed = int(os.environ.get('VERIF_SEED', '0') or 0)
    t0 = time.time()

    try:
        sys.path.insert(0, os.path.join(REPO, 'src'))
        with quiet():
            import gemdat
        assert os.path.abspath(gemdat.__file__).startswith(os.path.abspath(os.path.join(REPO, 'src'))), gemdat.__file__
        mod = importlib.import_module(f'pbt.props.{prop.lower()}')
    except Exception:  # noqa: BLE001
        traceback.print_exc()
        print(f'HARNESS-ERROR property={prop} import failed')
        return 2

    # ---- replay mode: no Hypothesis involved
    if a.replay:
        data = json.load(open(a.replay))
        try:
            _replay_one(mod, data['sub'], data['case'])
        except Violation as v:
            f = match_open_finding(mod, load_findings(prop), data['sub'], data['case'], v)
            if f:
                print(f"KNOWN-FINDING: property={prop} {f['what']}")
                return 0
            print(f'clause={v.clause} detail={v.detail}')
            print(f'VIOLATION property={prop} replay={a.replay}')
            return 1
        except Skip:
            print('replay: case is outside the precondition (Skip)')
            return 0
        print(f'replay: property {prop} holds on {a.replay}')
        return 0

    findings = load_findings(prop)
    violations = []
    known_lines = []
    excluded = collections.Counter()
    harness_errors = []

    # ---- tier 0: regression cases and known-finding reproducers (seconds)
    regdir = os.path.join(ROOT, 'regressions', prop)
    n_reg = 0
    reg_samples = []
    for fn in sorted(os.listdir(regdir)) if os.path.isdir(regdir) and not a.no_regressions else []:
        if not fn.endswith('.json'):
            continue
        path = os.path.join(regdir, fn)
        data = json.load(open(path))
        n_reg += 1
        try:
            _replay_one(mod, data['sub'], data['case'])
        except Violation as v:
            f = match_open_finding(mod, findings, data['sub'], data['case'], v)
            if f:
                line = f"KNOWN-FINDING: property={prop} {f['what']}"
                if line not in known_lines:
                    known_lines.append(line)
                excluded[f['key']] += 1
            else:
                violations.append((data['sub'], v.clause, v.detail, os.path.relpath(path, ROOT)))
        except Skip:
            pass
        except Exception:  # noqa: BLE001
            harness_errors.append(f'regression {fn}:\n' + traceback.format_exc())

    # ---- generated search
    tasks = []
    subs = [s for s in mod.SUBS if not a.only or s.name in a.only.split(',')]
    for s in subs:
        ns = max(1, s.shards[a.tier])
        for sh in range(ns):
            tasks.append((prop, s.name, sh, ns, seed, a.tier, a.scale, a.budget))
    results = []
    if tasks and not violations:
        jobs = min(a.jobs, len(tasks))
        if jobs <= 1:
            results = [_worker(t) for t in tasks]
        else:
            ctx = mp.get_context('fork')
            with ctx.Pool(jobs, maxtasksperchild=1) as pool:
                results = list(pool.imap_unordered(_worker, tasks, chunksize=1))

    per_sub = {}
    all_hashes = {}
    for s in subs:
        per_sub[s.name] = dict(kind=s.kind, rule=s.rule, evaluations=0, nontrivial=0, distinct_nontrivial=0, skipped=0, labels=collections.Counter(), samples=[], exhaustive=bool(s.exhaustive[a.tier] if isinstance(s.exhaustive, dict) else s.exhaustive), shards=0, wall_s=0.0, excluded_known={}, stopped_early=False)
        all_hashes[s.name] = set()
    for r in results:
        ps = per_sub[r.sub]
        ps['shards'] += 1
        ps['evaluations'] += r.evaluations
        ps['nontrivial'] += r.n_nontrivial
        ps['skipped'] += r.skipped
        ps['labels'].update(r.labels)
        ps['wall_s'] = round(max(ps['wall_s'], r.wall), 2)
        ps['stopped_early'] = ps['stopped_early'] or r.stopped_early
        if len(ps['samples']) < 2:
            ps['samples'].extend(r.samples[: 2 - len(ps['samples'])])
        all_hashes[r.sub] |= r.nontrivial
        for k, v in r.excluded.items():
            excluded[k] += v
            ps['excluded_known'][k] = ps['excluded_known'].get(k, 0) + v
        if r.error:
            harness_errors.append(f'{r.sub}[{r.shard}]:\n{r.error}')
        if r.violation:
            clause, detail, case = r.violation
            if any(v[0] == r.sub and v[1] == clause for v in violations):
                continue  # one replay per (sub-check, clause); other shards found the same clause
            path = write_replay(prop, r.sub, seed, case, clause, detail)
            violations.append((r.sub, clause, detail, path))
    for s in subs:
        ps = per_sub[s.name]
        ps['distinct_nontrivial'] = ps['nontrivial'] if s.kind == 'enum' else (0 if s.kind == 'fuzz' else len(all_hashes[s.name]))
        if s.kind == 'fuzz':
            ps['nontrivial_not_deduplicated'] = ps['nontrivial']
        ps['labels'] = dict(sorted(ps['labels'].items()))
        if ps['stopped_early'] or (s.kind == 'enum' and ps['skipped'] + ps['evaluations'] + sum(ps['excluded_known'].values()) < (s.size(a.tier) if s.size else 0)):
            ps['exhaustive'] = False

    # known findings: print one line for each open finding whose reproducer still fails
    for f in findings:
        if f.get('status') == 'open' and excluded.get(f['key'], 0) > 0:
            line = f"KNOWN-FINDING: property={prop} {f['what']}"
            if line not in known_lines:
                known_lines.append(line)

    wall = time.time() - t0
    evaluations = sum(ps['evaluations'] for ps in per_sub.values()) + n_reg
    distinct = sum(ps['distinct_nontrivial'] for ps in per_sub.values())
    samples = []
    for name, ps in per_sub.items():
        for c in ps['samples'][:1]:
            samples.append({'sub': name, 'case': c})
    for name, ps in per_sub.items():
        for c in ps['samples'][1:2]:
            if len(samples) < 6:
                samples.append({'sub': name, 'case': c})

    if not a.no_evidence and not a.only:
        ev = {
            'property_id': prop,
            'tier': a.tier,
            'seed': seed,
            'level': getattr(mod, 'LEVEL', 'exploration'),
            'coverage': {
                'evaluations': evaluations,
                'distinct_nontrivial': distinct,
                'rule': getattr(mod, 'RULE', '') + ' | per sub-check: ' + '; '.join(f'{s.name}: {s.rule}' for s in subs),
                'samples': samples,
                'exhaustive': bool(subs) and all(per_sub[s.name]['exhaustive'] for s in subs),
                'sub_checks': per_sub,
                'regression_cases_replayed': n_reg,
                'excluded_known_findings': dict(excluded),
                'generator': 'hypothesis %s' % _hyp_version(),
                'tree': REPO,
            },
            'assumptions': list(getattr(mod, 'ASSUMPTIONS', [])),
            'wall_s': round(wall, 2),
            'violations': len(violations),
        }
        os.makedirs(os.path.join(ROOT, 'evidence'), exist_ok=True)
        with open(os.path.join(ROOT, 'evidence', f'{prop}.json'), 'w') as f:
            json.dump(ev, f, indent=1, sort_keys=True, default=_jsonable)

    for name, ps in per_sub.items():
        lab = ' '.join(f'{k}={v}' for k, v in list(ps['labels'].items())[:12])
        print(f"  {prop}.{name}: evaluations={ps['evaluations']} nontrivial={ps['distinct_nontrivial']} skipped={ps['skipped']} "
              f"excluded={sum(ps['excluded_known'].values())} wall={ps['wall_s']}s {'(exhaustive) ' if ps['exhaustive'] else ''}{lab}")
    for line in known_lines:
        print(line)
    if harness_errors:
        for e in harness_errors[:3]:
            print(e, file=sys.stderr)
        print(f'HARNESS-ERROR property={prop} ({len(harness_errors)} errors)')
        return 2
    if violations:
        for subname, clause, detail, path in violations:
            print(f'  violated clause [{subname}] {clause}: {detail[:300]}')
            print(f'VIOLATION property={prop} replay={path}')
        return 1
    print(f'OK property={prop} tier={a.tier} seed={seed} evaluations={evaluations} distinct_nontrivial={distinct} wall={wall:.1f}s')
    return 0


def _hyp_version():
    try:
        import hypothesis

        return hypothesis.__version__
    except Exception:  # noqa: BLE001
        return '?'


def _jsonable(o):
    try:
        import numpy as np

        if isinstance(o, (np.integer,)):
            return int(o)
        if isinstance(o, (np.floating,)):
            return float(o)
        if isinstance(o, np.ndarray):
            return o.tolist()
    except Exception:  # noqa: BLE001
        pass
    if isinstance(o, (set, frozenset)):
        return sorted(o)
    return str(o)


if __name__ == '__main__':
    sys.exit(main())
