"""Hypothesis strategies.  Every strategy produces a JSON-able *case dict* (ints, floats, strings,
lists, dicts): the same dict is the replay format.  All randomness comes from Hypothesis."""
from __future__ import annotations

import math

import numpy as np
from hypothesis import assume
from hypothesis import strategies as st

from . import oracle

FAMILIES = ['cubic', 'tetragonal', 'orthorhombic', 'hexagonal', 'rhombohedral', 'monoclinic', 'triclinic']
ORIENTS = ['lower', 'pmg', 'rot']


def _r(x, nd=6):
    return float(round(x, nd))


@st.composite
def lattices(draw, families=None, orients=None, lmin=3.0, lmax=15.0, max_k=3):
    fam = draw(st.sampled_from(families or FAMILIES))
    orient = draw(st.sampled_from(orients or ORIENTS))
    L = st.floats(lmin, lmax).map(_r)
    ang = st.floats(55.0, 125.0).map(lambda x: _r(x, 4))
    a = draw(L)
    if fam == 'cubic':
        p = (a, a, a, 90.0, 90.0, 90.0)
    elif fam == 'tetragonal':
        p = (a, a, draw(L), 90.0, 90.0, 90.0)
    elif fam == 'orthorhombic':
        p = (a, draw(L), draw(L), 90.0, 90.0, 90.0)
    elif fam == 'hexagonal':
        p = (a, a, draw(L), 90.0, 90.0, 120.0)
    elif fam == 'rhombohedral':
        al = draw(st.floats(55.0, 115.0).map(lambda x: _r(x, 4)))
        p = (a, a, a, al, al, al)
    elif fam == 'monoclinic':
        p = (a, draw(L), draw(L), 90.0, draw(ang), 90.0)
    else:
        al, be = draw(ang), draw(ang)
        t = draw(st.floats(-0.95, 0.95))
        cg = math.cos(math.radians(al)) * math.cos(math.radians(be)) + math.sin(math.radians(al)) * math.sin(math.radians(be)) * t
        ga = _r(math.degrees(math.acos(max(-1.0, min(1.0, cg)))), 4)
        p = (a, draw(L), draw(L), al, be, ga)
    try:
        lower = oracle.matrix_from_params_lower(*p)
    except ValueError:
        assume(False)
    assume(abs(np.linalg.det(lower)) > 0.05 * p[0] * p[1] * p[2])
    if orient == 'lower':
        m = lower
    elif orient == 'pmg':
        from pymatgen.core import Lattice

        m = np.array(Lattice.from_parameters(*p).matrix)
    else:
        q = draw(st.tuples(*[st.floats(-1, 1)] * 4))
        assume(sum(x * x for x in q) > 1e-3)
        m = lower @ oracle.quat_to_rot(q).T
    assume(max(oracle.image_range(m)) <= max_k)
    return {'family': fam, 'orient': orient, 'params': list(p), 'matrix': [[float(x) for x in row] for row in m]}


FIXED_PARAMS = {'cubic': (5.0, 5.0, 5.0, 90.0, 90.0, 90.0), 'tetragonal': (4.0, 4.0, 7.5, 90.0, 90.0, 90.0), 'orthorhombic': (4.0, 6.5, 9.0, 90.0, 90.0, 90.0),
                'hexagonal': (4.5, 4.5, 8.0, 90.0, 90.0, 120.0), 'rhombohedral': (6.0, 6.0, 6.0, 70.0, 70.0, 70.0), 'monoclinic': (5.0, 7.0, 6.0, 90.0, 112.0, 90.0),
                'triclinic': (5.0, 6.5, 8.0, 75.0, 100.0, 62.0)}


def fixed_lattice(fam, orient='lower'):
    """A deterministic representative of a lattice family (for enumerations)."""
    p = FIXED_PARAMS[fam]
    lower = oracle.matrix_from_params_lower(*p)
    if orient == 'lower':
        m = lower
    elif orient == 'pmg':
        from pymatgen.core import Lattice

        m = np.array(Lattice.from_parameters(*p).matrix)
    else:
        m = lower @ oracle.quat_to_rot((0.3, -0.5, 0.7, 0.4)).T
    return {'family': fam, 'orient': orient, 'params': list(p), 'matrix': [[float(x) for x in row] for row in m]}


SPECIES = ['Li', 'Na', 'S', 'P', 'O', 'Si']

FACE_SPECIALS = [0.0, 1.0, -1e-17, 1e-17, 1 - 1e-16, 0.5, -0.0, 1.0 - 2**-53, 2**-60, -(2**-60), 0.25, 0.75, 1 / 3, 2 / 3]


def frac_coord(specials=True):
    base = st.floats(0, 1, exclude_max=True)
    if not specials:
        return base
    return st.one_of(base, base, st.sampled_from(FACE_SPECIALS))


@st.composite
def unwrapped_paths(draw, n_frames, n_atoms, max_step=0.45, specials=False, hop_prob=True):
    """(T, N, 3) unwrapped fractional path = base + cumsum(steps), |step| <= max_step < 1/2."""
    base = [[draw(frac_coord(specials)) for _ in range(3)] for _ in range(n_atoms)]
    kinds = st.sampled_from(['vib', 'vib', 'hop', 'big'] if hop_prob else ['vib'])
    steps = []
    for _t in range(n_frames - 1):
        row = []
        for _a in range(n_atoms):
            k = draw(kinds)
            lim = {'vib': 0.03, 'hop': 0.2, 'big': max_step}[k]
            row.append([draw(st.floats(-lim, lim)) for _ in range(3)])
        steps.append(row)
    path = [base]
    cur = np.array(base, float)
    for row in steps:
        cur = cur + np.array(row, float)
        path.append(cur.tolist())
    return path


def species_lists(n_atoms, min_kinds=1, pool=None):
    pool = pool or SPECIES
    return st.lists(st.sampled_from(pool), min_size=n_atoms, max_size=n_atoms).filter(lambda x: len(set(x)) >= min(min_kinds, n_atoms))


DIRS26 = [d for d in __import__('itertools').product((-1, 0, 1), repeat=3) if d != (0, 0, 0)]


def unit_dirs():
    return [list(np.array(d, float) / np.linalg.norm(d)) for d in DIRS26]


@st.composite
def site_sets(draw, matrix, n_min=1, n_max=6, min_sep=None, labels=('A', 'B', 'C'), r_max=None):
    """Sites on a jittered sub-grid whose minimum-image separation exceeds min_sep by construction
    (verified with the brute-force oracle; the rare rejections are assumes)."""
    m = np.array(matrix, float)
    n = draw(st.integers(n_min, n_max))
    # sub-grid with g^3 >= n cells
    g = 1
    while g**3 < n:
        g += 1
    g = draw(st.integers(g, max(g, 3)))
    cells = draw(st.lists(st.integers(0, g**3 - 1), min_size=n, max_size=n, unique=True))
    origin = [draw(st.sampled_from([0.0, 0.0, 0.5 / g, 1 - 1e-9, draw(st.floats(0, 1, exclude_max=True))])) for _ in range(3)]
    jit = draw(st.floats(0, 0.15))
    pts = []
    for c in cells:
        ijk = (c // (g * g), (c // g) % g, c % g)
        p = [(origin[k] + (ijk[k] + draw(st.floats(-jit, jit))) / g) % 1.0 for k in range(3)]
        pts.append(p)
    labs = [draw(st.sampled_from(list(labels))) for _ in range(n)]
    sep = oracle.shortest_lattice_vector(m)
    if n > 1:
        D = oracle.min_image_dist(pts, pts, m)
        sep = min(sep, float(np.min(D[np.triu_indices(n, 1)])))
    if min_sep is not None:
        assume(sep > min_sep)
    return {'frac': pts, 'labels': labs, 'sep': sep}


# --------------------------------------------------------------------------- trajectories
STEP_KINDS = [0.02, 0.02, 0.05, 0.2, 0.2, 0.49]


@st.composite
def path_cases(draw, max_frames=12, max_atoms=4, min_frames=2, min_atoms=1, specials=True, min_kinds=1, lat_kw=None,
               step_kinds=None, max_step=0.499999, species_pool=None):
    """A periodic trajectory given as an *unwrapped* fractional path base + cumsum(steps) with every
    step component |s| <= max_step < 1/2, so that the minimum-image unwrapping is unambiguous."""
    lat = draw(lattices(**(lat_kw or {})))
    T = draw(st.integers(min_frames, max_frames))
    N = draw(st.integers(min_atoms, max_atoms))
    symbols = draw(species_lists(N, min_kinds, species_pool))
    base = [[draw(frac_coord(specials)) for _ in range(3)] for _ in range(N)]
    n = (T - 1) * N
    kinds = draw(st.lists(st.sampled_from(step_kinds or STEP_KINDS), min_size=n, max_size=n))
    u = draw(st.lists(st.floats(-1, 1), min_size=3 * n, max_size=3 * n))
    steps = np.array(u, float).reshape(T - 1, N, 3) * np.minimum(np.array(kinds, float), max_step).reshape(T - 1, N, 1)
    path = np.concatenate([np.array(base, float)[None], np.array(base, float)[None] + np.cumsum(steps, axis=0)], axis=0)
    return {
        'lattice': lat,
        'symbols': symbols,
        'species_kind': draw(st.sampled_from(['Species', 'Element'])),
        'path': path.tolist(),
        'time_step': draw(st.sampled_from([0.5e-15, 1e-15, 2e-15, 5e-15, 1.2345678e-15, 0.7071067811865476e-15])),
        'temperature': draw(st.sampled_from([100.0, 300.0, 650.5, 1500.0])),
    }


def int_shifts(shape, lo=-3, hi=3):
    n = int(np.prod(shape))
    return st.lists(st.integers(lo, hi), min_size=n, max_size=n).map(lambda v: np.array(v, int).reshape(shape).tolist())


# --------------------------------------------------------------------------- hopping systems (sites + diffusers)
DELTA = 1e-3  # guard band (Angstrom) around every radius: MDAnalysis' KD-tree works in float32

RADIAL = ['deep', 'inner-edge', 'shell', 'outer-edge', 'just-outside']


def radial_distance(cls, r, f):
    ri = r * f
    if cls == 'deep':
        return 0.3 * ri
    if cls == 'inner-edge':
        return max(0.0, ri - 3 * DELTA)
    if cls == 'shell':
        return 0.5 * (ri + r) if r - ri > 8 * DELTA else max(0.0, ri - 3 * DELTA)
    if cls == 'outer-edge':
        return r - 3 * DELTA if r - ri > 8 * DELTA else max(0.0, ri - 3 * DELTA)
    return r + 3 * DELTA


def interstitials(matrix, site_frac, clearance):
    """deterministic list of fractional points at least `clearance` away from every site"""
    g = 5
    pts = np.array([[(i + 0.37) / g, (j + 0.61) / g, (k + 0.13) / g] for i in range(g) for j in range(g) for k in range(g)])
    d = oracle.min_image_dist(pts, site_frac, matrix).min(axis=1)
    return pts[d >= clearance]


@st.composite
def hop_systems(draw, tier='quick', max_sites=6, max_diff=3, max_frames=10, lat_kw=None, labels=('A', 'B', 'C'), min_sites=1,
                radius_modes=('float', 'dict'), framework=False, min_labels=1):
    lat = draw(lattices(**(lat_kw or {})))
    M = np.array(lat['matrix'])
    wmin = float(oracle.perp_widths(M).min())
    sites = draw(site_sets(M, n_min=min_sites, n_max=max_sites, min_sep=1.0, labels=labels))
    if len(set(sites['labels'])) < min_labels:
        labs = list(sites['labels'])
        for i, lab in enumerate(labels[:min_labels]):
            if i < len(labs):
                labs[i] = lab
        sites['labels'] = labs
        assume(len(set(labs)) >= min_labels)
    r_max = min((sites['sep'] - 0.3) / 2, 0.45 * wmin)
    assume(r_max > 0.25)
    mode = draw(st.sampled_from(list(radius_modes)))
    r0 = draw(st.floats(0.2, r_max))
    f = draw(st.sampled_from([1.0, 1.0, 0.9, 0.5, 0.25, draw(st.floats(0.05, 1.0))]))
    if mode == 'dict':
        radius = {lab: float(draw(st.floats(0.2, r_max))) for lab in sorted(set(sites['labels']))}
    else:
        radius = float(r0)
    sf = np.array(sites['frac'])
    rr = [radius[lab] if isinstance(radius, dict) else radius for lab in sites['labels']]
    inter = interstitials(M, sf, max(rr) + 0.3)
    T = draw(st.integers(2, max_frames))
    Nd = draw(st.integers(1, max_diff))
    dirs = unit_dirs()
    Minv = np.linalg.inv(M)
    path = np.zeros((T, Nd, 3))
    plan = []
    for a in range(Nd):
        t = 0
        col = []
        while t < T:
            s = draw(st.integers(-1, len(sf) - 1))
            cls = draw(st.sampled_from(RADIAL))
            d = draw(st.integers(0, 25))
            dwell = draw(st.sampled_from([1, 1, 2, 3]))
            for _ in range(dwell):
                if t >= T:
                    break
                if s < 0 and len(inter):
                    p = inter[d % len(inter)]
                else:
                    s_ = max(s, 0)
                    dist = radial_distance(cls if s >= 0 else 'just-outside', rr[s_], f)
                    p = (sf[s_] @ M + np.array(dirs[d]) * dist) @ Minv
                path[t, a] = p - np.floor(p)
                col.append([s, cls, d])
                t += 1
        plan.append(col)
    # site coordinates may be handed over in any periodic image (a Structure keeps them as given)
    shifts = [[draw(st.sampled_from([0, 0, 0, 0, 0, -1, 1, 2])) for _ in range(3)] for _ in sites['frac']]
    dshift = None
    if draw(st.integers(0, 2)) == 0:
        dshift = [[[draw(st.sampled_from([0, 0, -1, 1, -2, 3])) for _ in range(3)] for _ in range(Nd)] for _ in range(T)]
    case = {'lattice': lat, 'sites': {'frac': sites['frac'], 'labels': sites['labels'], 'image_shift': shifts}, 'diff_shift': dshift, 'radius': radius, 'inner_fraction': float(f),
            'diff': path.tolist(), 'plan': plan, 'time_step': 1e-15, 'temperature': draw(st.sampled_from([300.0, 700.0]))}
    case['prelude'] = draw(st.lists(st.sampled_from(['displacements', 'positions', 'msd', 'distances', 'cumulative', 'drift', 'volume']), max_size=2))
    # the site structure is an independent object: it may carry the same cell in another orientation or a slightly different
    # cell (e.g. a relaxed reference structure); distances are those of the simulation cell in every case
    sc = draw(st.sampled_from(['same', 'same', 'same', 'rotated', 'scaled']))
    if sc == 'rotated':
        case['sites_cell_rot'] = draw(st.sampled_from([[0.3, -0.5, 0.7, 0.4], [0.0, 1.0, 0.0, 0.0], [0.7, 0.1, -0.2, 0.68]]))
    elif sc == 'scaled':
        case['sites_cell_scale'] = draw(st.sampled_from([0.96, 1.04]))
    if framework:
        nf = draw(st.integers(1, 4))
        fsym = [draw(st.sampled_from(['S', 'P', 'O', 'Si'])) for _ in range(nf)]  # (one symbol is contained in another)
        base = np.array([[draw(st.floats(0, 1, exclude_max=True)) for _ in range(3)] for _ in range(nf)])
        n = T * nf * 3
        u = np.array(draw(st.lists(st.floats(-0.02, 0.02), min_size=n, max_size=n))).reshape(T, nf, 3)
        fw = base[None] + u
        case['framework'] = {'symbols': fsym, 'coords': (fw - np.floor(fw)).tolist()}
    return case
