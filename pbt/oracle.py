"""Independent reference implementations.  numpy + stdlib only: nothing here imports gemdat,
pymatgen, MDAnalysis, networkx or scipy, so an oracle can never agree with the code under
test merely because both call the same library routine."""
from __future__ import annotations

import heapq
import itertools
import math
from collections import deque

import numpy as np

# CODATA 2018 (exact SI values), typed in -- not taken from scipy
K_B = 1.380649e-23  # J/K
E_CHARGE = 1.602176634e-19  # C
N_A = 6.02214076e23  # 1/mol
K_B_EV = K_B / E_CHARGE  # eV/K
ANGSTROM = 1e-10


# --------------------------------------------------------------------------- lattices
def lattice_params(matrix):
    m = np.asarray(matrix, float)
    a, b, c = (np.linalg.norm(v) for v in m)
    al = math.degrees(math.acos(np.clip(np.dot(m[1], m[2]) / (b * c), -1, 1)))
    be = math.degrees(math.acos(np.clip(np.dot(m[0], m[2]) / (a * c), -1, 1)))
    ga = math.degrees(math.acos(np.clip(np.dot(m[0], m[1]) / (a * b), -1, 1)))
    return a, b, c, al, be, ga


def matrix_from_params_lower(a, b, c, al, be, ga):
    """a along x, b in the xy plane (LAMMPS / MDAnalysis convention)."""
    ca, cb, cg = (math.cos(math.radians(x)) for x in (al, be, ga))
    sg = math.sin(math.radians(ga))
    bx, by = b * cg, b * sg
    cx = c * cb
    cy = c * (ca - cb * cg) / sg
    cz2 = c * c - cx * cx - cy * cy
    if cz2 <= 0:
        raise ValueError('invalid cell')
    return np.array([[a, 0.0, 0.0], [bx, by, 0.0], [cx, cy, math.sqrt(cz2)]])


def quat_to_rot(q):
    q = np.asarray(q, float)
    q = q / np.linalg.norm(q)
    w, x, y, z = q
    return np.array(
        [
            [1 - 2 * (y * y + z * z), 2 * (x * y - z * w), 2 * (x * z + y * w)],
            [2 * (x * y + z * w), 1 - 2 * (x * x + z * z), 2 * (y * z - x * w)],
            [2 * (x * z - y * w), 2 * (y * z + x * w), 1 - 2 * (x * x + y * y)],
        ]
    )


def volume(matrix):
    return abs(float(np.linalg.det(np.asarray(matrix, float))))


def perp_widths(matrix):
    m = np.asarray(matrix, float)
    vol = volume(m)
    return np.array(
        [
            vol / np.linalg.norm(np.cross(m[1], m[2])),
            vol / np.linalg.norm(np.cross(m[2], m[0])),
            vol / np.linalg.norm(np.cross(m[0], m[1])),
        ]
    )


def image_range(matrix):
    """K_i such that enumerating lattice images n_i in [-K_i, K_i] around the componentwise
    rounded difference provably contains the minimum image: the minimum-image vector v has
    |v| <= R = (|a|+|b|+|c|)/2 and its i-th fractional component is bounded by |v| / w_i."""
    m = np.asarray(matrix, float)
    R = 0.5 * sum(np.linalg.norm(v) for v in m)
    w = perp_widths(m)
    return [int(math.floor(R / wi + 0.5)) for wi in w]


_IMG_CACHE: dict = {}


def _images(K):
    key = tuple(K)
    if key not in _IMG_CACHE:
        _IMG_CACHE[key] = np.array(list(itertools.product(*[range(-k, k + 1) for k in K])), float)
    return _IMG_CACHE[key]


def min_image_vectors(fa, fb, matrix, return_image=False):
    """Minimum-image Cartesian vectors from points fa (n,3) to fb (m,3) (fractional).
    Returns (n, m, 3) vectors (b - a) and (n, m) distances; brute force over images."""
    m = np.asarray(matrix, float)
    fa = np.atleast_2d(np.asarray(fa, float))
    fb = np.atleast_2d(np.asarray(fb, float))
    d = fb[None, :, :] - fa[:, None, :]
    base = np.round(d)
    d0 = d - base
    imgs = _images(image_range(m))
    cand = d0[:, :, None, :] + imgs[None, None, :, :]
    cart = cand @ m
    n2 = np.einsum('abik,abik->abi', cart, cart)
    arg = np.argmin(n2, axis=2)
    ii, jj = np.meshgrid(np.arange(fa.shape[0]), np.arange(fb.shape[0]), indexing='ij')
    vec = cart[ii, jj, arg]
    dist = np.sqrt(n2[ii, jj, arg])
    if return_image:
        # total integer image applied to (b - a): d - image = fractional min-image vector
        image = base - imgs[arg]
        return vec, dist, image
    return vec, dist


def shortest_lattice_vector(matrix):
    """Length of the shortest non-zero lattice vector (brute force)."""
    m = np.asarray(matrix, float)
    K = [k + 1 for k in image_range(m)]
    imgs = _images(K)
    imgs = imgs[np.any(imgs != 0, axis=1)]
    return float(np.min(np.linalg.norm(imgs @ m, axis=1)))


def min_image_dist(fa, fb, matrix):
    return min_image_vectors(fa, fb, matrix)[1]


def circ_diff(a, b):
    """|a - b| on the circle of circumference 1."""
    d = np.abs(np.asarray(a, float) - np.asarray(b, float)) % 1.0
    return np.minimum(d, 1.0 - d)


# --------------------------------------------------------------------------- state histories
NOSITE = -1


def events_model(states, inner):
    """Set of rows (atom, start, dest, start_inner, dest_inner, t) for every (atom, t) at which
    the outer or the inner state differs between t and t+1."""
    states = np.asarray(states)
    inner = np.asarray(inner)
    rows = set()
    T, N = states.shape
    for a in range(N):
        for t in range(T - 1):
            if states[t, a] != states[t + 1, a] or inner[t, a] != inner[t + 1, a]:
                rows.add((a, int(states[t, a]), int(states[t + 1, a]), int(inner[t, a]), int(inner[t + 1, a]), t))
    return rows


def ffill_model(states):
    states = np.asarray(states)
    out = states.copy()
    T, N = states.shape
    for a in range(N):
        last = NOSITE
        for t in range(T):
            if states[t, a] != NOSITE:
                last = states[t, a]
            out[t, a] = last
    return out


def bfill_model(states):
    states = np.asarray(states)
    return ffill_model(states[::-1])[::-1]


def jumps_model(states):
    """Default-settings jumps: per atom, drop 'no site', collapse repeats; every adjacent pair of
    distinct visited sites is a jump (atom, origin, dest, last frame at origin, first frame at dest)."""
    states = np.asarray(states)
    T, N = states.shape
    rows = set()
    for a in range(N):
        last_site, last_t = None, None
        for t in range(T):
            s = int(states[t, a])
            if s == NOSITE:
                continue
            if last_site is not None and s != last_site:
                rows.add((a, last_site, s, last_t, t))
            last_site, last_t = s, t
    return rows


# --------------------------------------------------------------------------- MSD
def msd_direct(cart_unwrapped):
    """cart_unwrapped (T, N, 3) -> (N, T) mean over time origins of |r(t+tau)-r(t)|^2."""
    r = np.asarray(cart_unwrapped, float)
    T, N, _ = r.shape
    out = np.zeros((N, T))
    for tau in range(T):
        d = r[tau:] - r[: T - tau]
        out[:, tau] = np.mean(np.sum(d * d, axis=-1), axis=0)
    return out


# --------------------------------------------------------------------------- grid graphs
FACE_MOVES = [(1, 0, 0), (-1, 0, 0), (0, 1, 0), (0, -1, 0), (0, 0, 1), (0, 0, -1)]
ALL_MOVES = [m for m in itertools.product((-1, 0, 1), repeat=3) if m != (0, 0, 0)]


def grid_graph(F, threshold, diagonal=True, moves=None):
    """dict node -> set(neighbour) over admissible voxels (0 <= F < threshold) of a periodic grid."""
    F = np.asarray(F, float)
    shape = F.shape
    if moves is None:
        moves = ALL_MOVES if diagonal else FACE_MOVES
    nodes = {idx for idx in np.ndindex(*shape) if 0 <= F[idx] < threshold}
    adj = {n: set() for n in nodes}
    for n in nodes:
        for mv in moves:
            nb = tuple((n[i] + mv[i]) % shape[i] for i in range(3))
            if nb in nodes:
                adj[n].add(nb)
                adj[nb].add(n)
    return adj


def dijkstra(adj, start, stop, wfun):
    """Cheapest additive cost from start to stop; None if unreachable."""
    if start not in adj or stop not in adj:
        return None
    dist = {start: 0.0}
    pq = [(0.0, start)]
    done = set()
    while pq:
        d, u = heapq.heappop(pq)
        if u in done:
            continue
        done.add(u)
        if u == stop:
            return d
        for v in adj[u]:
            if v in done:
                continue
            nd = d + wfun(u, v)
            if nd < dist.get(v, math.inf):
                dist[v] = nd
                heapq.heappush(pq, (nd, v))
    return None


def bfs_hops(adj, start, stop):
    if start not in adj or stop not in adj:
        return None
    seen = {start: 0}
    q = deque([start])
    while q:
        u = q.popleft()
        if u == stop:
            return seen[u]
        for v in adj[u]:
            if v not in seen:
                seen[v] = seen[u] + 1
                q.append(v)
    return None


def minimax(adj, start, stop, F):
    """Smallest achievable maximum node energy along a path start -> stop; None if unreachable."""
    if start not in adj or stop not in adj:
        return None
    best = {start: F[start]}
    pq = [(F[start], start)]
    done = set()
    while pq:
        d, u = heapq.heappop(pq)
        if u in done:
            continue
        done.add(u)
        if u == stop:
            return d
        for v in adj[u]:
            nd = max(d, F[v])
            if nd < best.get(v, math.inf):
                best[v] = nd
                heapq.heappush(pq, (nd, v))
    return None


# --------------------------------------------------------------------------- collective jumps
def collective_model(rows, site_frac, matrix, window, cutoff, band=1e-9):
    """rows: list of (atom, origin, dest, start, stop).  Returns (must, may): sets of frozenset
    index pairs that must / may be reported (may = distance inside the guard band)."""
    n = len(rows)
    must, may = set(), set()
    sf = np.asarray(site_frac, float)
    D = min_image_dist(sf, sf, matrix)
    for i in range(n):
        ai, oi, di, si, ei = rows[i]
        for j in range(i + 1, n):
            aj, oj, dj, sj, ej = rows[j]
            if ai == aj:
                continue
            if sj - ei > window or si - ej > window:
                continue
            dmin = min(D[oi, oj], D[oi, dj], D[di, oj], D[di, dj])
            if dmin < cutoff - band:
                must.add(frozenset((i, j)))
            elif dmin < cutoff + band:
                may.add(frozenset((i, j)))
    return must, may


# --------------------------------------------------------------------------- multisets of points
def _match_rows_large(a, b, tol):
    """multiset comparison for many rows without the n x n matrix: a spatial index (scipy's cKDTree, used for bookkeeping only) gives,
    for every row of either array, the number of rows of a and of b within tol (max-norm); the two multisets agree when these counts
    are equal everywhere.  Returns a (non-None) dummy permutation on success."""
    from scipy.spatial import cKDTree

    ta, tb = cKDTree(a), cKDTree(b)
    for pts in (a, b):
        na = ta.query_ball_point(pts, tol, p=np.inf, return_length=True)
        nb = tb.query_ball_point(pts, tol, p=np.inf, return_length=True)
        if np.any(na != nb):
            return None
    return np.arange(len(a))


def match_rows(a, b, tol):
    """Match the rows of a (n, d) one-to-one onto rows of b (n, d) within `tol` (greedy nearest on the distance matrix,
    most constrained rows first).  Returns the index array p with |a[i] - b[p[i]]| <= tol, or None if no matching exists."""
    a = np.asarray(a, float).reshape(len(a), -1)
    b = np.asarray(b, float).reshape(len(b), -1)
    if a.shape != b.shape:
        return None
    n = len(a)
    if n == 0:
        return np.zeros(0, dtype=int)
    if n > 2500:
        return _match_rows_large(a, b, tol)
    D = np.abs(a[:, None, :] - b[None, :, :]).max(axis=-1)
    ok = D <= tol
    if not ok.any(axis=1).all() or not ok.any(axis=0).all():
        return None
    # Hopcroft-Karp would be exact; candidates sets here are tiny (duplicates only), so augmenting paths suffice
    match_b = -np.ones(n, dtype=int)

    def try_assign(i, seen):
        for j in np.flatnonzero(ok[i]):
            if j in seen:
                continue
            seen.add(j)
            if match_b[j] < 0 or try_assign(match_b[j], seen):
                match_b[j] = i
                return True
        return False

    import sys

    lim = sys.getrecursionlimit()
    sys.setrecursionlimit(max(lim, 4 * n + 100))
    try:
        for i in np.argsort(ok.sum(axis=1)):
            if not try_assign(int(i), set()):
                return None
    finally:
        sys.setrecursionlimit(lim)
    p = np.empty(n, dtype=int)
    p[match_b] = np.arange(n)
    return p
