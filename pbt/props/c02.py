"""C02  Site assignment follows true minimum-image distance for every cell and radius."""
from __future__ import annotations

import numpy as np
from hypothesis import strategies as st

from .. import cases, gen, oracle, sitesys
from ..runner import Raised, Sub, Violation, gcall

PROPERTY = 'C02'
LEVEL = 'exploration'
RULE = ('cases are (lattice, labelled site set, radius as float / per-label dict / automatic, inner fraction, diffusing-atom positions placed by '
        'radial class around sites or at interstitial points); non-trivial = at least one atom-frame is assigned to a site through a non-zero periodic image')
ASSUMPTIONS = [
    'guard band 1e-3 A around every radius (the neighbour search works in float32): inside the band either outcome is accepted',
    'site spheres are disjoint by construction (separation > 2r + 0.3 A) except in the automatic-radius sub-check where disjointness is itself checked',
    'radius below 0.45 x the smallest perpendicular cell width',
    'the public pipeline is only called when the expected states contain a change (an all-constant history cannot be turned into an event table, see C03)',
]


def compare(got, want, what, case):
    got = np.asarray(got)
    if got.shape != want.shape:
        raise Violation(what + '-shape', f'{got.shape} vs {want.shape}')
    bad = (want != -2) & (got != want)
    if bad.any():
        t, a = np.argwhere(bad)[0]
        M = np.array(case['lattice']['matrix'])
        p = np.array(case['diff'])[t, a]
        d = oracle.min_image_dist(case['sites']['frac'], [p], M)[:, 0]
        raise Violation(what, f'frame {t} atom {a} at {p.tolist()}: assigned {int(got[t, a])}, expected {int(want[t, a])}; minimum-image distances to the sites {np.round(d, 4).tolist()}, '
                        f'radius {case["radius"]}, inner fraction {case["inner_fraction"]}, labels {case["sites"]["labels"]}, cell {case["lattice"]["family"]}/{case["lattice"]["orient"]}')


def run(case):
    from gemdat.transitions import _calculate_atom_states

    f = case['inner_fraction']
    want, via_image = sitesys.expected_states(case)
    want_in, _ = sitesys.expected_states(case, fraction=f)
    traj = sitesys.full_trajectory(case)
    diff = traj.filter('Li')
    cases.prelude(diff, case.get('prelude'))
    cases.prelude(traj, case.get('prelude'))
    labs0 = list(case['sites']['labels'])
    if isinstance(case['radius'], dict) and len(set(labs0)) > 1 and case.get('decoy'):
        # an earlier analysis in the same process with the same radii but another assignment of the labels to the sites (and, in one
        # variant, one site fewer); its site structure is released before the real one is built, so the new one may take its address
        dl = labs0[1:] + labs0[:1] if case['decoy'] == 'rotated-labels' else labs0[::-1][: max(1, len(labs0) - 1)]
        dc = dict(case, sites=dict(case['sites'], labels=dl, frac=case['sites']['frac'][: len(dl)], image_shift=(case['sites'].get('image_shift') or [[0, 0, 0]] * len(labs0))[: len(dl)]))
        if set(dl) <= set(case['radius']):
            ds = sitesys.sites(dc)
            gcall(_calculate_atom_states, sites=ds, trajectory=diff, site_radius=dict(case['radius']), allow=(ValueError,))
            del ds
    st_ = sitesys.sites(case)
    rad = case['radius'] if isinstance(case['radius'], dict) else {'': float(case['radius'])}
    rad0 = dict(rad)
    got = gcall(_calculate_atom_states, sites=st_, trajectory=diff, site_radius=rad)
    compare(got, want, 'outer-state-is-site-within-radius', case)
    if isinstance(case['radius'], dict) and len(set(labs0)) > 1 and case.get('relabel'):
        # the caller relabels the SAME site structure in place and analyses again: the radii follow the labels the sites carry now
        nl = labs0[1:] + labs0[:1]
        for site_, lab_ in zip(st_, nl):
            site_.label = lab_
        c2 = dict(case, sites=dict(case['sites'], labels=nl))
        w2, _ = sitesys.expected_states(c2)
        g2 = gcall(_calculate_atom_states, sites=st_, trajectory=diff, site_radius=rad)
        compare(g2, w2, 'outer-state-is-site-within-radius (same site structure relabelled in place)', c2)
        for site_, lab_ in zip(st_, labs0):
            site_.label = lab_
        g3 = gcall(_calculate_atom_states, sites=st_, trajectory=diff, site_radius=rad)
        compare(g3, want, 'outer-state-is-site-within-radius (labels restored)', case)
    got_in = gcall(_calculate_atom_states, sites=st_, trajectory=diff, site_radius=rad, site_inner_fraction=f)
    compare(got_in, want_in, 'inner-state-is-site-within-inner-radius', case)
    # the caller's radius specification is an input: the same object is used again (e.g. when scanning the inner fraction)
    got2 = gcall(_calculate_atom_states, sites=st_, trajectory=diff, site_radius=rad)
    compare(got2, want, 'outer-state-is-site-within-radius (repeated call with the same radius dict)', case)
    if rad != rad0:
        raise Violation('radius-argument-not-modified', f'{rad0} became {rad}')
    g, gi = np.asarray(got), np.asarray(got_in)
    if np.any((gi != -1) & (gi != g) & (want != -2) & (want_in != -2)):
        raise Violation('inner-is-none-or-outer', 'an inner state differs from the outer state')
    labels = [case['lattice']['family'], 'orient-' + case['lattice']['orient'], 'radius-' + ('dict' if isinstance(case['radius'], dict) else 'float')]
    clear = (want != -2).all() and (want_in != -2).all()
    has_change = bool((want[1:] != want[:-1]).any())
    if clear and has_change:
        rarg = sitesys.radius_arg(case)
        for rep in range(2):  # the second call re-uses the caller's radius object
            tr = gcall(traj.transitions_between_sites, st_, 'Li', site_radius=rarg, site_inner_fraction=f)
            compare(tr.states, want, f'pipeline-states (call {rep})', case)
            compare(tr.inner_states, want_in, f'pipeline-inner-states (call {rep})', case)
            gcall(tr.states_prev)
            gcall(tr.states_next)
            compare(tr.states, want, f'pipeline-states after the previous/next views were requested (call {rep})', case)
        labels.append('pipeline')
    if isinstance(case['radius'], dict):
        labs = case['sites']['labels']
        for lab in set(labs):
            members = [i for i, x in enumerate(labs) if x == lab]
            visited = set(want[want >= 0].tolist())
            if len(members) > 1 and any(m not in visited for m in members) and any(m in visited for m in members):
                labels.append('group-with-unvisited-member')
                break
        if any(not any(labs[i] == lab for i in set(want[want >= 0].tolist())) for lab in set(labs)):
            labels.append('label-nobody-visits')
    if via_image:
        labels.append('assigned-through-periodic-image')
    return {'nontrivial': via_image, 'labels': labels}


def run_auto(case):
    """automatic radius: spheres never overlap, assignment unique and follows the minimum-image rule at that radius"""
    M = np.array(case['lattice']['matrix'])
    traj = sitesys.full_trajectory(case)
    st_ = sitesys.sites(case)
    sf = np.array(case['sites']['frac'])
    n = len(sf)
    D = oracle.min_image_dist(sf, sf, M)
    sep = float(np.min(D[np.triu_indices(n, 1)]))
    from gemdat.metrics import TrajectoryMetrics

    amp = float(gcall(TrajectoryMetrics(traj.filter('Li')).vibration_amplitude))
    r = 2 * amp
    if sep < 2 * r:
        r = 0.5 * sep - 0.005
    too_close = sep < 2 * (2 * amp) and 2 * r < 0.5
    # the anchored radius rule, called as from_trajectory calls it
    from gemdat.transitions import _compute_site_radius

    rr = gcall(_compute_site_radius, trajectory=traj, sites=st_, vibration_amplitude=amp, allow=(ValueError,))
    if not isinstance(rr, Raised) and np.isfinite(amp):
        if abs(float(rr) - r) > 1e-9 * max(1.0, r):
            raise Violation('automatic-radius-rule', f'radius {float(rr)!r} but min(2 x amplitude, separation/2 - 0.005) = {r!r} (smallest minimum-image site separation {sep!r}, amplitude {amp!r}, cell {case["lattice"]["family"]}/{case["lattice"]["orient"]})')
        if 2 * float(rr) >= sep:
            raise Violation('automatic-spheres-disjoint', f'2 x {float(rr)!r} >= smallest site separation {sep!r}')
    labels = [case['lattice']['family']]
    if not np.isfinite(amp):
        return {'nontrivial': False, 'labels': ['amplitude-undefined']}
    # expected states at the automatic radius
    want, via_image = sitesys.expected_states(case, radii=np.full(n, r))
    has_change = bool(((want[1:] != want[:-1]) & (want[1:] != -2) & (want[:-1] != -2)).any())
    if not has_change and not too_close:
        return {'nontrivial': False, 'labels': labels + ['no-change']}
    tr = gcall(traj.transitions_between_sites, st_, 'Li', site_radius=None, site_inner_fraction=case['inner_fraction'], allow=(ValueError,))
    if isinstance(tr, Raised):
        msg = str(tr.exc)
        if 'too close' in msg:
            if not (abs(2 * r - 0.5) < 1e-6 or too_close):
                raise Violation('too-close-error-only-when-sites-too-close', f'{msg[:120]}; smallest separation {sep!r}, amplitude {amp!r}')
            return {'nontrivial': False, 'labels': labels + ['too-close-error']}
        if 'need at least one array' in msg and (want == -2).any():
            return {'nontrivial': False, 'labels': labels + ['no-change']}
        raise Violation('unexpected-exception', msg[:200])
    if too_close and abs(2 * r - 0.5) > 1e-6:
        raise Violation('too-close-error-expected', f'sites {sep!r} apart, automatic radius {r!r}: expected the documented ValueError')
    if 2 * r >= sep:
        raise Violation('automatic-spheres-disjoint', f'2 x {r!r} >= smallest site separation {sep!r}')
    compare(tr.states, want, 'automatic-radius-states', dict(case, radius=r))
    want_in, _ = sitesys.expected_states(case, radii=np.full(n, r), fraction=case['inner_fraction'])
    compare(tr.inner_states, want_in, 'automatic-radius-inner-states', dict(case, radius=r))
    if 2 * amp > 0.5 * sep - 0.005:
        labels.append('radius-limited-by-separation')
    else:
        labels.append('radius-from-amplitude')
    if via_image:
        labels.append('assigned-through-periodic-image')
    return {'nontrivial': via_image, 'labels': labels}


@st.composite
def states_cases(draw, tier):
    c = draw(gen.hop_systems(tier=tier, max_frames=10 if tier == 'quick' else 24, max_diff=3 if tier == 'quick' else 5, labels=('A', 'A1', 'B', 'A10')))
    c['decoy'] = draw(st.sampled_from([None, None, 'rotated-labels', 'fewer-sites']))
    c['relabel'] = draw(st.sampled_from([False, False, True]))
    return c


@st.composite
def auto_cases(draw, tier):
    c = draw(gen.hop_systems(tier=tier, min_sites=2, max_sites=5, max_frames=12 if tier == 'quick' else 30, radius_modes=('float',)))
    # jitter the planned positions so that the automatic radius (unknown to the generator) meets arbitrary distances
    diff = np.array(c['diff'])
    n = diff.size
    u = np.array(draw(st.lists(st.floats(-1, 1), min_size=n, max_size=n))).reshape(diff.shape)
    amp = draw(st.sampled_from([0.0, 0.005, 0.02, 0.05]))
    d = diff + u * amp
    c['diff'] = (d - np.floor(d)).tolist()
    return c


@st.composite
def close_pair_cases(draw, tier):
    """automatic radius with a pair of sites 0.35 - 1.3 A apart (split sites), possibly across a cell face: the radius is
    limited by the separation (or the documented "too close" error is due) and atoms sit on both sides of the mid-plane"""
    from hypothesis import assume

    lat = draw(gen.lattices())
    M = np.array(lat['matrix'])
    Minv = np.linalg.inv(M)
    dirs = gen.unit_dirs()
    d = draw(st.one_of(st.floats(0.35, 1.3), st.sampled_from([0.5, 0.505, 0.512, 0.52, 0.8, 1.0, 1.005, 1.02])))
    s0 = np.array([draw(st.sampled_from([0.0, 0.5, 0.999, 0.001, draw(st.floats(0, 1, exclude_max=True))])) for _ in range(3)])
    s1 = (s0 @ M + np.array(dirs[draw(st.integers(0, 25))]) * d) @ Minv
    sf = [s0, s1 - np.floor(s1)]
    for _ in range(draw(st.integers(0, 2))):
        sf.append(np.array([draw(st.floats(0, 1, exclude_max=True)) for _ in range(3)]))
    sf = np.array(sf)
    D = oracle.min_image_dist(sf, sf, M)
    iu = np.triu_indices(len(sf), 1)
    assume(abs(float(D[0, 1]) - d) < 1e-9 and float(np.sort(D[iu])[1] if len(D[iu]) > 1 else 9.0) > 1.6)  # the pair is the closest one by a margin
    inter = gen.interstitials(M, sf, 1.2)
    assume(len(inter) > 0)
    T = draw(st.integers(3, 10 if tier == 'quick' else 24))
    Nd = draw(st.integers(1, 2))
    quiet = draw(st.integers(0, 4)) == 0  # only vibrations: the amplitude, not the separation, may set the radius
    path = np.zeros((T, Nd, 3))
    for a in range(Nd):
        home = draw(st.integers(0, 1))
        for t in range(T):
            k = home if quiet else draw(st.sampled_from([0, 1, 0, 1, -1]))
            if k < 0:
                p = inter[draw(st.integers(0, len(inter) - 1))]
            else:
                rho = (draw(st.floats(0, 0.02)) if quiet else d * draw(st.sampled_from([0.0, 0.1, 0.3, 0.45, 0.49, 0.51, 0.55, 0.7])))
                p = (sf[k] @ M + np.array(dirs[draw(st.integers(0, 25))]) * rho) @ Minv
            path[t, a] = p - np.floor(p)
    labs = [draw(st.sampled_from(['A', 'B'])) for _ in sf]
    return {'lattice': lat, 'sites': {'frac': sf.tolist(), 'labels': labs}, 'radius': 0.0, 'inner_fraction': draw(st.sampled_from([1.0, 0.5, 0.9])),
            'diff': path.tolist(), 'time_step': 1e-15, 'temperature': 300.0}


# ----------------------------------------------------------------------------- complete enumeration of directions and radial classes
SITE_POS = [(0.0, 0.0, 0.0), (0.0, 0.5, 0.5), (0.5, 0.0, 0.5), (0.5, 0.5, 0.0), (0.0, 0.0, 0.5), (0.0, 0.5, 0.0), (0.5, 0.0, 0.0), (0.999, 0.001, 0.5)]
DIRS = [np.array(d, float) / np.linalg.norm(d) for d in __import__('itertools').product((-1, 0, 1), repeat=3) if any(d)]
ENUM_LATS = [(f, o) for f in gen.FAMILIES for o in gen.ORIENTS]


def enum_size(tier):
    return len(ENUM_LATS) * len(SITE_POS) * 4


def enum_case(tier, idx):
    mode, shifted = idx % 2, (idx // 2) % 2
    idx //= 4
    sp = SITE_POS[idx % len(SITE_POS)]
    fam, ori = ENUM_LATS[idx // len(SITE_POS)]
    lat = gen.fixed_lattice(fam, ori)
    M = np.array(lat['matrix'])
    inv = np.linalg.inv(M)
    s0 = np.array(sp)
    s1 = s0 + 0.5
    sites_frac = np.array([s0, s1 - np.floor(s1)])
    rA, rB, f = 0.6, 0.45, 0.5
    radius = {'A': rA, 'A1': rB} if mode else rA
    radii = [rA, rB if mode else rA]
    frames = []
    for d in DIRS:
        for cls in range(6):
            row = []
            for k in range(2):
                r = radii[k]
                dist = [0.0, f * r - 2 * gen.DELTA, f * r + 2 * gen.DELTA, r - 2 * gen.DELTA, r + 2 * gen.DELTA, 1.5 * r][cls]
                x = sites_frac[k] + (dist * (d if k == 0 else -d)) @ inv
                row.append((x - np.floor(x)).tolist())
            frames.append(row)
    case = {'lattice': lat, 'sites': {'frac': sites_frac.tolist(), 'labels': ['A', 'A1']}, 'radius': radius, 'inner_fraction': f, 'diff': frames}
    if shifted:  # the same geometry with atoms and sites handed over in other periodic images
        t = np.arange(len(frames))
        case['diff_shift'] = np.stack([np.stack([(t + a) % 3 - 1, (t // 3 + a) % 3 - 1, (t // 9) % 3 - 1], axis=-1) for a in range(2)], axis=1).astype(float).tolist()
        case['sites']['image_shift'] = [[1.0, -1.0, 0.0], [0.0, 2.0, -1.0]]
    return case


def run_enum(case):
    info = run(case)
    info['labels'] = [x for x in info['labels']] + ['site-at-' + '/'.join(str(x) for x in case['sites']['frac'][0])] + (['other-images'] if case.get('diff_shift') else [])
    return info


# ----------------------------------------------------------------------------- very many positions / very many sites (size-dependent code paths)
def run_large(case):
    """hundreds of thousands of atom positions (frames x atoms) in one call, or tens of thousands of sites: states vs brute force, in blocks"""
    from gemdat.transitions import _calculate_atom_states

    M = np.array(case['lattice']['matrix'], float)
    Minv = np.linalg.inv(M)
    T, N, S, r = case['frames'], case['atoms'], case['n_sites'], case['radius']
    g = int(np.ceil(S ** (1 / 3)))
    sf = np.array([[(i + 0.02) / g, (j + 0.5) / g, (k + 0.98) / g] for i in range(g) for j in range(g) for k in range(g)])[:S] % 1.0
    dirs = np.array(gen.unit_dirs())
    t_ = np.arange(T).reshape(T, 1)
    a_ = np.arange(N).reshape(1, N)
    which = (S - 1 - ((t_ // 5 + 3 * a_) % min(S, 7))) % S            # the sites with the highest indices are visited
    rad = np.array([0.3, 0.8, 1.3, 1.55])[(t_ + a_) % 4] * r            # inside, inside, outside, further outside (but far from every other site)
    dvec = dirs[(t_ * 7 + a_ * 3) % 26]
    pos = sf[which] + (dvec * rad[..., None]) @ Minv
    pos = pos - np.floor(pos)
    traj = cases.trajectory(pos, ['Li'] * N, M, 1e-15, 300.0)
    sites = cases.sites_structure(M, sf, [('A' if i % 2 else 'B') for i in range(S)])
    radius = {'A': r, 'B': r} if case['radius_dict'] else {'': r}
    got = np.asarray(gcall(_calculate_atom_states, sites=sites, trajectory=traj, site_radius=radius))
    if got.shape != (T, N):
        raise Violation('states-shape', f'{got.shape}')
    # brute force, block by block; only the candidate site of each position and its grid neighbours can be within the radius
    flat = pos.reshape(-1, 3)
    gf, wf = got.reshape(-1), which.reshape(-1)
    inside = (rad.reshape(-1) < r)
    want = np.where(inside, wf, -1)
    # the plan is confirmed by brute force over ALL sites on a sample of the positions (site blocks of 4000)
    sample = np.unique(np.linspace(0, len(flat) - 1, 300 if S > 1000 else 3000).astype(int))
    dmin = np.full(len(sample), np.inf)
    amin = np.full(len(sample), -1)
    for lo in range(0, S, 4000):
        D_ = oracle.min_image_dist(sf[lo:lo + 4000], flat[sample], M)
        k_ = D_.argmin(axis=0)
        v_ = D_[k_, np.arange(len(sample))]
        better = v_ < dmin
        dmin[better], amin[better] = v_[better], k_[better] + lo
    brute = np.where(dmin < r, amin, -1)
    if np.any(np.abs(dmin - r) < 1e-6) or not np.array_equal(brute, want[sample]):
        raise AssertionError('generator: the planned assignment differs from the brute-force minimum-image assignment')
    bad = np.flatnonzero(gf != want)
    if len(bad):
        k = int(bad[0])
        dk = float(oracle.min_image_dist(sf[[wf[k]]], flat[[k]], M)[0, 0])
        raise Violation('outer-state-is-site-within-radius', f'{T} frames x {N} atoms x {S} sites: position {k} (frame {k // N}, atom {k % N}) lies {dk:.4f} A from site {int(wf[k])} (radius {r}): assigned {int(gf[k])}, expected {int(want[k])}; {len(bad)} of {len(flat)} entries differ')
    return {'nontrivial': True, 'labels': [case['lattice']['family'], f'positions={T * N}', f'sites={S}']}


def large_size(tier):
    return 3 if tier == 'quick' else 5


def large_case(tier, idx):
    lat = gen.fixed_lattice(['triclinic', 'hexagonal', 'cubic', 'monoclinic', 'orthorhombic'][idx % 5], ['lower', 'rot', 'pmg'][idx % 3])
    L = float(np.linalg.norm(np.array(lat['matrix']), axis=1).min())
    if idx == 1:  # very many sites: a big cell (scaled so that neighbouring sites are > 3 A apart), indices beyond 2^15
        S = 33800
        g = int(np.ceil(S ** (1 / 3)))
        scale = 3.2 * g / L
        lat = dict(lat, matrix=(np.array(lat['matrix']) * scale).tolist())
        return {'lattice': lat, 'frames': 40, 'atoms': 2, 'n_sites': S, 'radius': 1.0, 'radius_dict': True}
    scale = 3.2 * 2 / L
    lat = dict(lat, matrix=(np.array(lat['matrix']) * scale).tolist())
    return {'lattice': lat, 'frames': [174800, 0, 262201, 131100, 349600][idx], 'atoms': [3, 0, 2, 4, 3][idx], 'n_sites': 8, 'radius': 0.9, 'radius_dict': bool(idx % 2)}


SUBS = [
    Sub(name='states', kind='hyp', run=run, strategy=lambda tier: states_cases(tier),
        rule='all lattice families x 3 orientations; 1-6 labelled sites (corner/face positions over-represented); radius float or per-label dict; inner fraction in (0,1]; atoms placed deep inside / at the inner edge / in the shell / at the outer edge / just outside / interstitial along 26 directions',
        n={'quick': 150, 'thorough': 2500}, shards={'quick': 12, 'thorough': 16}),
    Sub(name='automatic-radius', kind='hyp', run=run_auto, strategy=auto_cases,
        rule='radius=None: oracle recomputes min(2 x amplitude, separation/2 - 0.005), asserts disjoint spheres and the states at that radius; "too close" error accepted iff the separation implies it',
        n={'quick': 80, 'thorough': 1500}, shards={'quick': 4, 'thorough': 16}),
    Sub(name='automatic-radius-close-pair', kind='hyp', run=run_auto, strategy=close_pair_cases,
        rule='radius=None with a pair of sites 0.35-1.3 A apart (split sites; also across a cell face; 0-2 further sites) in all cells, atoms at 0-0.7 x the separation from either site or only vibrating: same clauses as automatic-radius (rule, disjoint spheres, states and inner states at that radius, the "too close" error iff implied)',
        n={'quick': 60, 'thorough': 1500}, shards={'quick': 4, 'thorough': 16}),
    Sub(name='large-systems', kind='enum', run=run_large, size=large_size, case_at=large_case, exhaustive=True,
        rule='small family, complete: 524 400 (quick) / up to 1 048 800 (thorough) atom positions (frames x atoms, not a multiple of 2^18) over 8 sites, and 33 800 sites (indices beyond 2^15) with two atoms visiting the highest-numbered ones, in triclinic / hexagonal / rotated cells; atoms at 0.3 / 0.8 / 1.3 / 1.55 radii from their site along 26 directions: states vs the planned minimum-image assignment',
        shards={'quick': 3, 'thorough': 5}),
    Sub(name='enum-directions', kind='enum', run=run_enum, size=enum_size, case_at=enum_case, exhaustive=True,
        rule='complete enumeration: 7 lattice families x 3 orientations x first site at cell corner / each face centre / each edge centre / next to a face (second site half a cell away) x radius float / per-label dict (labels A, A1) x coordinates wrapped / given in other periodic images; two atoms visit all 26 Cartesian directions x 6 radial classes (centre, 2e-3 A inside/outside the inner radius, 2e-3 A inside/outside the radius, 1.5 r) around their site; outer and inner states vs brute-force minimum image, direct and through the public pipeline',
        shards={'quick': 16, 'thorough': 16}),
]
