"""C08  Density volumes conserve every sample and use a consistent voxel mapping."""
from __future__ import annotations

import math
from fractions import Fraction

import numpy as np
from hypothesis import strategies as st

from .. import cases, gen, oracle
from ..runner import Sub, Violation, gcall

PROPERTY = 'C08'
LEVEL = 'exploration'
RULE = ('trajectory cases: lattice x coordinates in [0,1) incl. voxel-edge specials x resolution; non-trivial = a sample in the last voxel of an '
        'axis or exactly on a voxel edge, or unequal grid dimensions. Round-trip enumeration: every voxel index of every grid size up to the bound '
        '(each (size, index) pair is one evaluation)')
ASSUMPTIONS = [
    'a sample whose coordinate x grid size lies within 1e-9 of an integer may be counted in either adjacent voxel (float rounding of the bin edges), '
    'EXCEPT when the grid size is a power of two, where edges and products are exact in binary floating point and floor() is demanded strictly',
    'a grid size is accepted as floor(L/res) or its neighbour when L/res is within 1e-9 of an integer',
    'resolution not exceeding the shortest cell edge',
]
BAND = 1e-9


def is_pow2(n):
    return n >= 1 and (n & (n - 1)) == 0


def axis_candidates(x, n, exact_input=True):
    """set of admissible voxel indices along one axis for fractional coordinate x in [0,1)."""
    fx = Fraction(float(x))
    fx = fx - math.floor(fx)
    k = int(math.floor(fx * n))
    if k >= n:
        k = n - 1
    prod = float(fx * n)
    near = abs(prod - round(prod)) < BAND
    if not near or (is_pow2(n) and exact_input):
        return {k}, bool(near)
    r = int(round(prod))
    return {(r - 1) % n, r % n}, True


def run_traj(case):
    M = np.array(case['lattice']['matrix'], float)
    coords = np.array(case['coords'], float)
    T, N, _ = coords.shape
    res = case['resolution']
    t = cases.trajectory(coords, ['Li'] * N, M, 1e-15, 300.0)
    for op in case.get('prelude', []):
        if op == 'displacements':
            gcall(lambda: t.displacements)
        elif op == 'msd':
            gcall(t.mean_squared_displacement)
        elif op == 'positions':
            gcall(lambda: t.positions)
    from gemdat.volume import trajectory_to_volume

    if case.get('repeat') and res * case['repeat'] <= float(np.linalg.norm(M, axis=1).min()):
        gcall(t.to_volume, resolution=res * case['repeat'])  # an earlier volume of the same trajectory at another resolution
    vol = gcall(trajectory_to_volume, t, resolution=res) if case.get('via') == 'function' else gcall(t.to_volume, resolution=res)
    after = np.array(gcall(lambda: t.positions))
    if np.abs(((after - coords + 0.5) % 1.0) - 0.5).max() > 1e-9:
        raise Violation('positions-unchanged-by-to-volume', 'to_volume modified the positions of the trajectory')
    data = np.asarray(vol.data)
    if data.ndim != 3:
        raise Violation('grid-shape', f'{data.shape}')
    if int(data.sum()) != T * N or (data < 0).any():
        raise Violation('sum-conserved', f'voxel sum {int(data.sum())} != frames x atoms = {T * N}')
    L = np.linalg.norm(M, axis=1)
    dims = []
    for ax in range(3):
        q = Fraction(float(L[ax])) / Fraction(float(res))
        n = int(math.floor(q))
        ok = {n}
        if abs(float(q) - round(float(q))) < BAND:
            ok |= {int(round(float(q))) - 1, int(round(float(q)))}
        if data.shape[ax] not in ok:
            raise Violation('grid-size', f'axis {ax}: {data.shape[ax]} voxels for edge {L[ax]!r} and resolution {res!r}; floor(L/res) = {n}')
        dims.append(data.shape[ax])
    vs = np.asarray(vol.voxel_size, float)
    for ax in range(3):
        if abs(vs[ax] - L[ax] / dims[ax]) > 1e-12 * L[ax]:
            raise Violation('voxel-size', f'axis {ax}: voxel_size {vs[ax]!r} vs L/n {L[ax] / dims[ax]!r}')
        if not (res * (1 - 1e-9) <= vs[ax] < 2 * res * (1 + 1e-9)):
            raise Violation('voxel-edge-between-res-and-2res', f'axis {ax}: voxel edge {vs[ax]!r} for requested resolution {res!r}')
    # expected histogram
    # after a representation switch positions are only equal to the input up to round-off (C01), so exactness is not demanded
    exact_input = not any(op in ('displacements', 'msd') for op in case.get('prelude', []))
    strict = np.zeros(data.shape, dtype=int)
    amb = []
    n_edge = n_last = 0
    flat = coords.reshape(-1, 3)
    for p in flat:
        cand = []
        any_amb = False
        for ax in range(3):
            c, near = axis_candidates(p[ax], dims[ax], exact_input)
            any_amb |= len(c) > 1
            n_edge += near
            n_last += (dims[ax] - 1) in c
            cand.append(sorted(c))
        if any_amb:
            amb.append(cand)
        else:
            strict[cand[0][0], cand[1][0], cand[2][0]] += 1
    rem = data - strict
    if (rem < 0).any():
        idx = tuple(np.argwhere(rem < 0)[0])
        raise Violation('voxel-is-floor-of-coordinate', f'voxel {idx} of grid {data.shape} holds {data[idx]} samples but {strict[idx]} samples have floor(x*n) = {idx} unambiguously')
    if int(rem.sum()) != len(amb):
        raise Violation('voxel-is-floor-of-coordinate', f'{int(rem.sum())} unexplained samples vs {len(amb)} on-edge samples')
    if len(amb) == 0 and rem.any():
        raise Violation('voxel-is-floor-of-coordinate', 'histogram differs')
    if amb:
        allowed = np.zeros(data.shape, dtype=int)
        for cand in amb:
            for i in cand[0]:
                for j in cand[1]:
                    for k in cand[2]:
                        allowed[i, j, k] += 1
        if (rem > allowed).any():
            idx = tuple(np.argwhere(rem > allowed)[0])
            raise Violation('voxel-is-floor-of-coordinate', f'voxel {idx}: {rem[idx]} extra samples but only {allowed[idx]} on-edge samples may fall there')
    # one mapping everywhere: the coordinate -> voxel functions of the returned volume name the voxel the sample was counted in
    from pymatgen.core import PeriodicSite

    n_map = 0
    for p in flat[:: max(1, len(flat) // 40)]:
        cand = [axis_candidates(p[ax], dims[ax], exact_input)[0] for ax in range(3)]
        if any(len(c) > 1 for c in cand) or any(abs(p[ax] * dims[ax] - round(p[ax] * dims[ax])) < BAND for ax in range(3)):
            continue
        v = tuple(next(iter(c)) for c in cand)
        g1 = tuple(int(x) for x in np.asarray(gcall(vol.frac_coords_to_voxel, np.array(p))))
        g2 = tuple(int(x) for x in np.asarray(gcall(vol.site_to_voxel, PeriodicSite('Li', np.array(p), vol.lattice))))
        if g1 != v or g2 != v or data[v] < 1:
            raise Violation('consistent-voxel-mapping', f'sample {p.tolist()} in grid {data.shape}: counted in voxel {v} (count {int(data[v])}), frac_coords_to_voxel gives {g1}, site_to_voxel gives {g2}')
        c_ = np.asarray(gcall(vol.voxel_to_cart_coords, v), float)
        if np.abs(c_ - ((np.array(v) + 0.5) / np.array(dims)) @ M).max() > 1e-9 * float(L.max()):
            raise Violation('voxel-cartesian', f'{v}')
        n_map += 1
    labels = [case['lattice']['family']] + (['mapping-compared'] if n_map else []) + (['nearly-equal-cell-edges'] if case['lattice'].get('near_degenerate') else [])
    if n_edge:
        labels.append('sample-on-voxel-edge')
    if n_last:
        labels.append('sample-in-last-voxel')
    if len(set(dims)) > 1:
        labels.append('unequal-dims')
    if any(is_pow2(d) for d in dims):
        labels.append('pow2-axis')
    return {'nontrivial': bool(n_edge or n_last or len(set(dims)) > 1), 'labels': labels}


@st.composite
def traj_cases(draw, tier):
    big = tier == 'thorough'
    lat = draw(gen.lattices())
    if draw(st.integers(0, 4)) == 0:
        # nearly degenerate cell: edge lengths that agree to 1e-6 .. 1e-3 but are not equal (a relaxed "cubic" cell)
        eps = [draw(st.sampled_from([0.0, 2e-4, -2e-4, 4e-4, -4e-4, 8e-4, 1e-6, -1e-6])) for _ in range(3)]
        lat = dict(lat, matrix=(np.array(lat['matrix'], float) * (1.0 + np.array(eps)).reshape(3, 1)).tolist(), near_degenerate=True)
    M = np.array(lat['matrix'])
    L = np.linalg.norm(M, axis=1)
    mode = draw(st.sampled_from(['free', 'target-n', 'target-n', 'pow2']))
    if mode == 'free':
        res = draw(st.floats(0.05 * L.min(), L.min()))
    else:
        ax = draw(st.integers(0, 2))
        n = draw(st.sampled_from([1, 2, 4, 8, 16])) if mode == 'pow2' else draw(st.integers(1, 24))
        res = float(L[ax] / (n + draw(st.sampled_from([0.0, 1e-12, 0.5, 0.999]))))
        if res > L.min():
            res = float(L.min())
    dims = [max(1, int(math.floor(l / res))) for l in L]
    T = draw(st.integers(1, 8 if big else 4))
    N = draw(st.integers(1, 5 if big else 3))

    def coord(ax):
        n = dims[ax]
        k = st.integers(0, max(0, n - 1))
        edge = st.builds(lambda kk: kk / n, k)
        ulp = st.builds(lambda kk, s: float(np.nextafter(kk / n, s)), k, st.sampled_from([0.0, 1.0]))
        last = st.floats((n - 1) / n, 1.0, exclude_max=True)
        return st.one_of(st.floats(0, 1, exclude_max=True), st.floats(0, 1, exclude_max=True), edge, ulp, last,
                         st.sampled_from([0.0, 0.5, 0.25, 0.75, 1 - 2**-53, 2**-60, 1 - 1e-9]))

    coords = [[[min(max(draw(coord(ax)), 0.0), 1 - 2**-53) for ax in range(3)] for _ in range(N)] for _ in range(T)]
    return {'lattice': lat, 'coords': coords, 'resolution': float(res),
            'prelude': draw(st.lists(st.sampled_from(['displacements', 'msd', 'positions']), max_size=2)),
            'via': draw(st.sampled_from(['method', 'function'])), 'repeat': draw(st.sampled_from([None, None, 1.0, 1.7]))}


@st.composite
def long_axis_cases(draw, tier):
    """a slab cell with more than 1024 (2048, 4096) voxels along one axis and few along the others"""
    ax = draw(st.integers(0, 2))
    n_long = draw(st.sampled_from([1023, 1024, 1025, 1076, 2049, 4097] if tier == 'thorough' else [1025, 1076, 2049]))
    res = draw(st.sampled_from([0.2, 0.25, 0.5]))
    L = [res * draw(st.sampled_from([3.5, 8.5, 20.5])) for _ in range(3)]
    L[ax] = res * (n_long + 0.5)
    lat = {'family': 'orthorhombic', 'orient': 'lower', 'params': L + [90, 90, 90], 'matrix': np.diag(L).tolist()}
    T, N = draw(st.integers(2, 5)), draw(st.integers(2, 4))
    coords = [[[draw(st.one_of(st.floats(0, 1, exclude_max=True), st.sampled_from([0.0, 0.5, 0.97, (n_long - 0.5) / (n_long + 0.5) if k == ax else 0.3, 1030.3 / (n_long + 0.5) if k == ax else 0.6])) if True else 0) for k in range(3)] for _ in range(N)] for _ in range(T)]
    coords = [[[min(max(x, 0.0), 1 - 2**-53) for x in p] for p in fr] for fr in coords]
    return {'lattice': lat, 'coords': coords, 'resolution': res, 'prelude': [], 'via': draw(st.sampled_from(['method', 'function'])), 'repeat': None}


@st.composite
def crowded_cases(draw, tier):
    """many atoms in one voxel over 100 - 1000 frames: voxel counts far above the number of frames and above the 8-bit range
    (16-bit and wider ranges are reached by large-trajectories)"""
    lat = draw(gen.lattices())
    L = np.linalg.norm(np.array(lat['matrix']), axis=1)
    res = float(L.min() / draw(st.sampled_from([1.0, 1.5, 2.0, 2.5, 3.2])))
    T = draw(st.sampled_from([100, 127, 128, 129, 200, 254, 255, 256, 257, 300] + ([511, 512, 1000] if tier == 'thorough' else [])))
    N = draw(st.integers(2, 6))
    centre = [draw(st.sampled_from([0.1, 0.3, 0.6, 0.9])) for _ in range(3)]
    stray = draw(st.integers(0, 3))  # a few samples elsewhere
    t = np.arange(T).reshape(T, 1, 1)
    a = np.arange(N).reshape(1, N, 1)
    ax = np.arange(3).reshape(1, 1, 3)
    coords = np.array(centre).reshape(1, 1, 3) + 0.01 * np.sin(0.37 * t + 1.3 * a + 2.1 * ax)  # deterministic jitter well inside the voxel
    for k in range(stray):
        coords[(7 * k + 3) % T, k % N] = [0.05 + 0.3 * k, 0.95 - 0.3 * k, 0.5]
    return {'lattice': lat, 'coords': coords.tolist(), 'resolution': res, 'prelude': draw(st.lists(st.sampled_from(['positions']), max_size=1)),
            'via': draw(st.sampled_from(['method', 'function'])), 'repeat': None}


# ----------------------------------------------------------------------------- voxel round trip (complete enumeration)
BLOCK = 32


def rt_size(tier):
    dmax = 4096 if tier == 'quick' else 20000
    return (dmax + BLOCK - 1) // BLOCK


def rt_case(tier, idx):
    dmax = 4096 if tier == 'quick' else 20000
    return {'d_lo': idx * BLOCK + 1, 'd_hi': min(dmax, (idx + 1) * BLOCK)}


def run_roundtrip(case):
    from gemdat.volume import Volume
    from pymatgen.core import Lattice

    lat = Lattice(np.eye(3) * 7.0)
    count = 0
    for d in range(case['d_lo'], case['d_hi'] + 1):
        # three different axes carry the size d so that every axis of the mapping is exercised
        for shape, ax in (((d, 1, 2), 0), ((2, d, 1), 1), ((1, 3, d), 2)):
            if ax != d % 3 and d > 64:
                continue
            vol = Volume(data=np.zeros(shape, dtype=np.int8), lattice=lat)
            vox = np.zeros((d, 3), dtype=int)
            vox[:, ax] = np.arange(d)
            frac = np.asarray(gcall(vol.voxel_to_frac_coords, vox))
            want = (np.arange(d) + 0.5) / d
            if frac.shape != (d, 3) or np.abs(frac[:, ax] - want).max() > 1e-12 or frac.min() < 0 or frac.max() >= 1:
                raise Violation('voxel-centre', f'grid size {d}: voxel_to_frac_coords is not (index + 1/2) / size inside [0,1)')
            back = np.asarray(gcall(vol.frac_coords_to_voxel, frac))
            if not np.array_equal(back, vox):
                bad = int(np.argwhere((back != vox).any(axis=1))[0][0])
                raise Violation('voxel-round-trip', f'grid size {d}, axis {ax}: index {bad} -> centre {frac[bad, ax]!r} -> index {back[bad].tolist()}')
            count += d
    return {'nontrivial': True, 'count': count, 'labels': []}


@st.composite
def rt3d_cases(draw, tier):
    dims = [draw(st.integers(1, 300)) for _ in range(3)]
    vox = [[draw(st.integers(0, d - 1)) for d in dims] for _ in range(draw(st.integers(1, 6)))]
    return {'dims': dims, 'vox': vox, 'lattice': draw(gen.lattices())}


def run_rt3d(case):
    from gemdat.volume import Volume

    dims = case['dims']
    vol = Volume(data=np.zeros(dims, dtype=np.int8), lattice=cases.lattice(case['lattice']))
    M = np.array(case['lattice']['matrix'])
    for v in case['vox']:
        f = np.asarray(gcall(vol.voxel_to_frac_coords, v), float)
        if np.abs(f - (np.array(v) + 0.5) / np.array(dims)).max() > 1e-12:
            raise Violation('voxel-centre', f'{v} in {dims} -> {f.tolist()}')
        b = np.asarray(gcall(vol.frac_coords_to_voxel, f))
        if b.tolist() != list(v):
            raise Violation('voxel-round-trip', f'{v} in grid {dims} -> {f.tolist()} -> {b.tolist()}')
        c = np.asarray(gcall(vol.voxel_to_cart_coords, v), float)
        if np.abs(c - f @ M).max() > 1e-9:
            raise Violation('voxel-cartesian', f'{v}')
    vs = np.asarray(vol.voxel_size, float)
    if np.abs(vs - np.linalg.norm(M, axis=1) / np.array(dims)).max() > 1e-12 * np.linalg.norm(M):
        raise Violation('voxel-size', f'{vs.tolist()}')
    return {'nontrivial': len(set(dims)) > 1, 'labels': ['unequal-dims'] if len(set(dims)) > 1 else []}


# ----------------------------------------------------------------------------- every voxel edge of every grid size (complete enumeration)
def edge_size(tier):
    return 384 if tier == 'quick' else 2048


def edge_case(tier, idx):
    return {'n': idx + 1, 'axis': idx % 3}


def run_edges(case):
    """grid size n along one axis: samples exactly on every edge k/n, one ulp below and above it, and at every voxel centre"""
    from gemdat.volume import trajectory_to_volume

    n, ax = case['n'], case['axis']
    Lc = 10.0
    res = Lc / (n + 0.5)
    xs = []
    for k in range(n):
        e = k / n
        xs += [e, float(np.nextafter(e, 1.0)), (k + 0.5) / n]
        if k > 0:
            xs.append(float(np.nextafter(e, 0.0)))
    xs.append(float(np.nextafter(1.0, 0.0)))
    coords = np.full((1, len(xs), 3), 0.5)
    coords[0, :, ax] = xs
    lengths = [Lc * 0.9] * 3  # the other two axes get one voxel fewer than n + ... irrelevant: only `ax` is examined
    lengths[ax] = Lc
    t = cases.trajectory(coords, ['Li'] * len(xs), np.diag(lengths), 1e-15, 300.0)
    vol = gcall(trajectory_to_volume, t, resolution=res)
    data = np.asarray(vol.data)
    if data.shape[ax] != n:
        raise Violation('grid-size', f'{data.shape[ax]} voxels for edge {Lc} and resolution {res!r}; floor(L/res) = {n}')
    if int(data.sum()) != len(xs):
        raise Violation('sum-conserved', f'{int(data.sum())} != {len(xs)}')
    got = data.sum(axis=tuple(i for i in range(3) if i != ax))
    strict = np.zeros(n, dtype=int)
    allowed = np.zeros(n, dtype=int)
    for x in xs:
        c, _near = axis_candidates(x, n, True)
        if len(c) == 1:
            strict[next(iter(c))] += 1
        else:
            for b in c:
                allowed[b] += 1
    rem = got - strict
    if (rem < 0).any() or (rem > allowed).any():
        b = int(np.argwhere((rem < 0) | (rem > allowed))[0][0])
        raise Violation('voxel-is-floor-of-coordinate', f'grid size {n} (axis {ax}): voxel {b} holds {int(got[b])} samples, exact floor() counting gives {int(strict[b])} (+{int(allowed[b])} within the edge band)')
    return {'nontrivial': True, 'count': len(xs), 'labels': ['pow2' if is_pow2(n) else 'other']}


# ----------------------------------------------------------------------------- vectorised brute-force histogram (large inputs, call histories)
def check_histogram(data, flat, what=''):
    """data: reported grid; flat: (P, 3) fractional coordinates in [0,1).  Every sample must be counted once, in voxel
    floor(x * n) (either neighbour when x * n is within BAND of an integer)."""
    data = np.asarray(data)
    dims = np.array(data.shape)
    if int(data.sum()) != len(flat) or (data < 0).any():
        raise Violation('sum-conserved', f'{what}voxel sum {int(data.sum())} != frames x atoms = {len(flat)} (grid {data.shape})')
    prod = flat * dims[None, :]
    near = np.abs(prod - np.round(prod)) < 1e-7  # wide band: the vectorised product is itself rounded
    amb = near.any(axis=1)
    idx = np.minimum(np.floor(prod).astype(np.int64), dims[None, :] - 1)
    strict = np.bincount(np.ravel_multi_index(tuple(idx[~amb].T), data.shape), minlength=data.size).reshape(data.shape)
    rem = data - strict
    if (rem < 0).any():
        v = tuple(int(x) for x in np.argwhere(rem < 0)[0])
        raise Violation('voxel-is-floor-of-coordinate', f'{what}voxel {v} of grid {data.shape} holds {int(data[v])} samples but {int(strict[v])} samples have floor(x*n) = {v} unambiguously')
    if int(rem.sum()) != int(amb.sum()):
        raise Violation('voxel-is-floor-of-coordinate', f'{what}{int(rem.sum())} unexplained samples vs {int(amb.sum())} on-edge samples')
    if amb.any():
        allowed = np.zeros(data.shape, dtype=np.int64)
        for pt, nr in zip(prod[amb], near[amb]):
            cands = []
            for ax in range(3):
                if nr[ax]:
                    r = int(round(pt[ax]))
                    cands.append({(r - 1) % dims[ax], r % dims[ax]})
                else:
                    cands.append({min(int(np.floor(pt[ax])), dims[ax] - 1)})
            for i in cands[0]:
                for j in cands[1]:
                    for k in cands[2]:
                        allowed[i, j, k] += 1
        if (rem > allowed).any():
            v = tuple(int(x) for x in np.argwhere(rem > allowed)[0])
            raise Violation('voxel-is-floor-of-coordinate', f'{what}voxel {v}: {int(rem[v])} extra samples but only {int(allowed[v])} on-edge samples may fall there')
    return int(amb.sum())


def weyl_coords(T, N, alpha, x0):
    """deterministic quasi-random coordinates in [0,1): frac(x0[a] + (t + 1) * alpha * (a + 1)) -- a pure function of the case"""
    t = np.arange(1, T + 1, dtype=float).reshape(T, 1, 1)
    a = np.arange(1, N + 1, dtype=float).reshape(1, N, 1)
    c = np.asarray(x0, float).reshape(1, N, 3) + t * a * np.asarray(alpha, float).reshape(1, 1, 3)
    c = c - np.floor(c)
    c[c >= 1.0] = 0.0
    return c


def run_large(case):
    """trajectories with 10^5 - 10^7 samples (size-dependent code paths: chunking, integer widths, sparse/dense switches)"""
    from gemdat.volume import trajectory_to_volume

    M = np.array(case['lattice']['matrix'], float)
    T, N = case['frames'], case['atoms']
    coords = weyl_coords(T, N, case['alpha'], case['x0'])
    t = cases.trajectory(coords, ['Li'] * N, M, 1e-15, 300.0)
    res = case['resolution']
    vol = gcall(trajectory_to_volume, t, resolution=res) if case.get('via') == 'function' else gcall(t.to_volume, resolution=res)
    data = np.asarray(vol.data)
    L = np.linalg.norm(M, axis=1)
    for ax in range(3):
        if abs(data.shape[ax] - L[ax] / res) > 1.0 + 1e-9:
            raise Violation('grid-size', f'axis {ax}: {data.shape[ax]} voxels for edge {L[ax]!r} and resolution {res!r}')
    n_amb = check_histogram(data, coords.reshape(-1, 3), f'{T} frames x {N} atoms: ')
    labels = [case['lattice']['family'], f'samples>=1e{int(np.log10(T * N))}', 'frames>65535' if T > 65535 else 'frames<=65535']
    if n_amb:
        labels.append('sample-on-voxel-edge')
    return {'nontrivial': True, 'labels': labels}


@st.composite
def large_cases(draw, tier):
    big = tier == 'thorough'
    lat = draw(gen.lattices())
    L = np.linalg.norm(np.array(lat['matrix']), axis=1)
    samples = draw(st.sampled_from([1_050_000, 2_300_000, 120_000, 1_300_000] + ([4_500_000, 11_000_000] if big else [])))
    N = draw(st.sampled_from([3, 1, 2, 7, 40]))
    T = max(2, samples // N)
    alpha = [draw(st.sampled_from([0.6180339887, 0.4142135623, 0.7320508075, 0.2360679775, 0.0001234567, 0.3333333333])) for _ in range(3)]
    x0 = [[draw(st.sampled_from([0.0, 0.1, 0.5, 0.77, 0.999])) for _ in range(3)] for _ in range(N)]
    res = float(L.min() / draw(st.sampled_from([8.0, 3.3, 1.5, 17.2, 40.5])))
    return {'lattice': lat, 'frames': T, 'atoms': N, 'alpha': alpha, 'x0': x0, 'resolution': res, 'via': draw(st.sampled_from(['method', 'function']))}


def run_history(case):
    """call histories on ONE trajectory object: volumes at several resolutions interleaved with representation switches, in-place
    extend and derived trajectories; every volume is compared with the brute-force histogram of the coordinates the object holds then"""
    from gemdat.volume import trajectory_to_volume

    M = np.array(case['lattice']['matrix'], float)
    coords = np.array(case['coords'], float)
    N = coords.shape[1]
    t = cases.trajectory(coords, ['Li'] * (N - N // 2) + ['Na'] * (N // 2), M, 1e-15, 300.0)
    cur = coords
    labels = set()
    n_vol = 0
    seen_res = set()
    for op in case['ops']:
        k = op['op']
        if k == 'volume':
            res = case['resolutions'][op['res']]
            obj, ref = t, cur
            if op.get('on') == 'filter' and N // 2:
                obj, ref = gcall(t.filter, 'Na'), cur[:, N - N // 2:]
                labels.add('volume-of-filtered')
            elif op.get('on') == 'slice' and len(cur) >= 2:
                a = len(cur) // 2
                obj, ref = gcall(lambda: t[a:]), cur[a:]
                labels.add('volume-of-slice')
            vol = gcall(trajectory_to_volume, obj, resolution=res) if op.get('via') == 'function' else gcall(obj.to_volume, resolution=res)
            check_histogram(vol.data, ref.reshape(-1, 3), f'history step {case["ops"].index(op)} ({k}, resolution {res!r}, {len(ref)} frames): ')
            n_vol += 1
            if (op['res'], op.get('on')) in seen_res:
                labels.add('same-resolution-again')
            seen_res.add((op['res'], op.get('on')))
        elif k == 'extend':
            more = np.array(op['coords'], float)
            other = cases.trajectory(more, ['Li'] * (N - N // 2) + ['Na'] * (N // 2), M, 1e-15, 300.0)
            gcall(t.extend, other)
            cur = np.concatenate([cur, more], axis=0)
            if seen_res:
                labels.add('extend-after-volume')
        elif k == 'displacements':
            gcall(lambda: t.displacements)
        elif k == 'positions':
            gcall(lambda: t.positions)
        elif k == 'free-energy':
            gcall(gcall(t.to_volume, resolution=case['resolutions'][0]).get_free_energy, 300.0)
    return {'nontrivial': n_vol >= 2 and ('extend-after-volume' in labels or 'same-resolution-again' in labels), 'labels': sorted(labels)}


@st.composite
def history_cases(draw, tier):
    lat = draw(gen.lattices())
    L = np.linalg.norm(np.array(lat['matrix']), axis=1)
    N = draw(st.integers(1, 4))
    grid = st.integers(0, 63).map(lambda k: (k + 0.37) / 64)  # well inside voxels of any grid used here up to round-off switches

    def chunk(T):
        return [[[draw(grid) for _ in range(3)] for _ in range(N)] for _ in range(T)]

    resolutions = [float(L.min() / d) for d in draw(st.lists(st.sampled_from([1.5, 2.5, 4.2, 7.7]), min_size=1, max_size=3, unique=True))]
    ops = []
    for _ in range(draw(st.integers(2, 8))):
        k = draw(st.sampled_from(['volume', 'volume', 'volume', 'extend', 'displacements', 'positions', 'free-energy']))
        if k == 'volume':
            ops.append({'op': k, 'res': draw(st.integers(0, len(resolutions) - 1)), 'via': draw(st.sampled_from(['method', 'function'])), 'on': draw(st.sampled_from([None, None, 'filter', 'slice']))})
        elif k == 'extend':
            ops.append({'op': k, 'coords': chunk(draw(st.integers(1, 4)))})
        else:
            ops.append({'op': k})
    return {'lattice': lat, 'coords': chunk(draw(st.integers(2, 5))), 'resolutions': resolutions, 'ops': ops}


SUBS = [
    Sub(name='trajectory-histogram', kind='hyp', run=run_traj, strategy=traj_cases,
        rule='1-4 (8) frames x 1-3 (5) atoms in all lattices; resolution free in (0.05 Lmin, Lmin] or aimed at a grid size (power of two for exact edges); coordinates uniform, exactly on voxel edges k/n, one ulp beside them, in the last voxel',
        n={'quick': 150, 'thorough': 2500}, shards={'quick': 10, 'thorough': 16}),
    Sub(name='long-axis', kind='hyp', run=run_traj, strategy=long_axis_cases,
        rule='slab cells with 1025 / 1076 / 2049 (1023 - 4097) voxels along one axis and 3 - 20 along the others, samples anywhere incl. the voxels beyond index 1024: same clauses as trajectory-histogram (index packing, per-axis limits)',
        n={'quick': 6, 'thorough': 60}, shards={'quick': 4, 'thorough': 16}),
    Sub(name='crowded-voxels', kind='hyp', run=run_traj, strategy=crowded_cases,
        rule='2-6 atoms that stay in one voxel for 100 - 300 (1000) frames (frame counts around 128 and 256 included), coarse grids of 1-16 voxels per axis in all lattices, a few stray samples: voxel counts above the number of frames and above 8-bit ranges; same clauses as trajectory-histogram',
        n={'quick': 12, 'thorough': 200}, shards={'quick': 6, 'thorough': 16}),
    Sub(name='voxel-roundtrip-enum', kind='enum', run=run_roundtrip, size=rt_size, case_at=rt_case, exhaustive=True,
        rule='complete enumeration: every voxel index v < d for every grid size d <= 4096 (quick) / 20000 (thorough) through the real Volume methods, size placed on each axis',
        shards={'quick': 16, 'thorough': 16}),
    Sub(name='voxel-roundtrip-3d', kind='hyp', run=run_rt3d, strategy=rt3d_cases,
        rule='random unequal 3-D grids up to 300^3 with random voxel triples; centre, round trip, Cartesian centre, voxel size',
        n={'quick': 200, 'thorough': 3000}, shards={'quick': 2, 'thorough': 8}),
    Sub(name='every-edge-enum', kind='enum', run=run_edges, size=edge_size, case_at=edge_case, exhaustive=True,
        rule='complete enumeration: for every grid size n <= 384 (quick) / 2048 (thorough), samples exactly on every voxel edge k/n, one ulp below and above it, at every voxel centre and at the last representable coordinate below 1, binned through trajectory_to_volume (each sample is one evaluation)',
        shards={'quick': 16, 'thorough': 16}),
    Sub(name='large-trajectories', kind='hyp', shrink=False, run=run_large, strategy=large_cases,
        rule='trajectories with 1.2e5 - 2.3e6 (1.1e7) samples (1-40 atoms, so up to 2.3e6 frames) of deterministic quasi-random coordinates in all lattices, 1-40 voxels per axis: every sample counted once in floor(x*n) (vectorised brute force); reaches size-dependent code paths (chunking, integer widths)',
        n={'quick': 2, 'thorough': 4}, shards={'quick': 6, 'thorough': 16}),
    Sub(name='volume-histories', kind='hyp', run=run_history, strategy=history_cases,
        rule='2-8 step call histories on one trajectory object: volumes at 1-3 resolutions (method / function; of the object, of a filtered species, of a slice) interleaved with in-place extend, representation switches and free-energy conversion; every volume compared with the brute-force histogram of the frames the object holds at that moment',
        n={'quick': 60, 'thorough': 1500}, shards={'quick': 6, 'thorough': 16}),
]
