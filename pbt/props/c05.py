"""C05  Jump/occupancy bookkeeping conserves counts; jump diffusivity matches formula."""
from __future__ import annotations

import collections
import math

import numpy as np
from hypothesis import strategies as st

from .. import cases, gen, oracle, sitesys
from ..runner import Raised, Skip, Sub, Violation, gcall
from . import c03

PROPERTY = 'C05'
LEVEL = 'exploration'
RULE = ('cases are real Transitions/Jumps objects built (i) from hopping trajectories in all cells through the public pipeline and (ii) from direct '
        'multi-atom histories over labelled sites; non-trivial = at least one jump, at least one event touching "no site" and at least two labels')
ASSUMPTIONS = [
    'counts are compared with the recorded tables (Jumps.data, Transitions.events); the correctness of the tables themselves is C03/C04',
    'occupancy clauses are evaluated only when no site holds two atoms in the same frame (pymatgen rejects occupancies above one)',
    'the attempt frequency entering the activation energies is read from the library (its formula is C14)',
]


def check_all(tr, jumps, states, labels_site, M, n_atoms, T, dt, temp, info, dims_list=(1, 2, 3), n_parts=2, bounds=None):
    S = len(labels_site)
    ev = tr.events
    # read-only views requested first: they must not disturb the bookkeeping that follows
    gcall(tr.states_prev)
    gcall(tr.states_next)
    if not np.array_equal(np.asarray(tr.states), states):
        raise Violation('states-unchanged-by-views', 'states_prev()/states_next() modified Transitions.states')
    # ---- Transitions.matrix
    tm = np.asarray(gcall(tr.matrix))
    want = np.zeros((S, S), dtype=int)
    touching_nosite = 0
    for s, d in zip(ev['start site'], ev['destination site']):
        if s >= 0 and d >= 0:
            want[int(s), int(d)] += 1
        else:
            touching_nosite += 1
    if tm.shape != (S, S) or not np.array_equal(tm, want):
        bad = np.argwhere(tm != want)[0] if tm.shape == (S, S) else None
        raise Violation('transitions-matrix-counts-site-to-site-events', f'entry {None if bad is None else bad.tolist()}: matrix {None if bad is None else int(tm[tuple(bad)])}, events with that (start, destination) {None if bad is None else int(want[tuple(bad)])}; {touching_nosite} events touch "no site", {S} sites')
    if touching_nosite:
        info['labels'].append('event-touching-nosite')
    if jumps is None:
        return
    data = jumps.data
    rows = [(int(a), int(s), int(d)) for a, s, d in zip(data['atom index'], data['start site'], data['destination site'])]
    # ---- Jumps.matrix
    jm = np.asarray(gcall(jumps.matrix))
    wj = np.zeros((S, S), dtype=int)
    for _, s, d in rows:
        wj[s, d] += 1
    if jm.shape != (S, S) or not np.array_equal(jm, wj):
        raise Violation('jump-matrix-counts-jumps', f'matrix\n{jm}\nvs table counts\n{wj}')
    if int(jm.sum()) != jumps.n_jumps or jumps.n_jumps != len(rows):
        raise Violation('jump-matrix-sums-to-n-jumps', f'{int(jm.sum())} vs n_jumps {jumps.n_jumps}')
    if np.trace(jm) != 0:
        raise Violation('jump-matrix-empty-diagonal', f'{np.diag(jm).tolist()}')
    # ---- counters
    c_idx = gcall(jumps._counter)
    wc = collections.Counter((s, d) for _, s, d in rows)
    if dict(c_idx) != dict(wc):
        raise Violation('index-counter', f'{dict(c_idx)} vs {dict(wc)}')
    c_lab = gcall(jumps.counter)
    wl = collections.Counter()
    for (s, d), v in wc.items():
        wl[labels_site[s], labels_site[d]] += v
    if dict(c_lab) != dict(wl):
        raise Violation('label-counter-aggregates-matrix', f'{dict(c_lab)} vs {dict(wl)}')
    # ---- jump diffusivity
    sf_ = np.array(info['site_frac'], float)
    D = {pr: float(oracle.min_image_dist(sf_[[pr[0]]], sf_[[pr[1]]], M)[0, 0]) for pr in {(s, d) for _, s, d in rows}}  # (only the pairs that occur: the site set may be large)
    total_time = T * dt
    for dims in dims_list:
        got = float(gcall(jumps.jump_diffusivity, dims))
        wantd = sum(D[s, d] ** 2 for _, s, d in rows) * oracle.ANGSTROM**2 / (2 * dims * n_atoms * total_time)
        if abs(got - wantd) > 1e-9 * max(abs(wantd), 1e-300):
            raise Violation('jump-diffusivity-formula', f'dimensions={dims}: reported {got!r}, sum_jumps d^2 / (2 d N t) = {wantd!r} ({len(rows)} jumps, {n_atoms} atoms, cell {info["cell"]})')
    # ---- occupancy
    flat = states[states >= 0]
    double = any(np.unique(row[row >= 0], return_counts=True)[1].max(initial=0) > 1 for row in states)
    if double:
        info['labels'].append('double-occupancy-skipped')
    else:
        occ = gcall(tr.occupancy)
        per_site = np.array([float(site.species.num_atoms) for site in occ])
        wocc = np.array([np.sum(states == i) for i in range(S)]) / T
        if np.abs(per_site - wocc).max() > 1e-12:
            raise Violation('occupancy-is-fraction-of-frames', f'{per_site.tolist()} vs {wocc.tolist()}')
        if abs(per_site.sum() - len(flat) / T) > 1e-9:
            raise Violation('occupancies-add-up', '')
        if list(occ.labels) != list(labels_site):
            raise Violation('occupancy-labels', f'{occ.labels}')
        al = gcall(tr.atom_locations)
        wal = {lab: sum(wocc[i] for i in range(S) if labels_site[i] == lab) / n_atoms for lab in set(labels_site)}
        if set(al) != set(wal) or any(abs(al[k] - wal[k]) > 1e-12 for k in wal):
            raise Violation('atom-locations', f'{al} vs {wal}')
        if abs(sum(al.values()) - len(flat) / (T * n_atoms)) > 1e-9:
            raise Violation('atom-locations-add-up-to-fraction-at-sites', f'{sum(al.values())!r} vs {len(flat) / (T * n_atoms)!r}')
        ot = gcall(tr.occupancy_by_site_type)
        wot = {lab: float(np.mean([wocc[i] for i in range(S) if labels_site[i] == lab])) for lab in set(labels_site)}
        if set(ot) != set(wot) or any(abs(ot[k] - wot[k]) > 1e-12 for k in wot):
            raise Violation('occupancy-by-site-type', f'{ot} vs {wot}')
        # ---- graph
        m = gcall(jumps.trajectory.metrics)
        nu = float(gcall(m.attempt_frequency)[0])
        # a per-frame step of exactly half a cell edge is a genuine tie of the minimum image: the attempt frequency (and with it
        # the activation energies) is then not defined by the geometry and may differ between two evaluations
        st_ = np.diff(np.asarray(gcall(lambda: jumps.trajectory.positions), float), axis=0)
        tie = bool(np.any(np.abs(np.abs(st_ - np.round(st_)) - 0.5) < 1e-6))
        if tie:
            info['labels'].append('half-cell-tie-graph-skipped')
        if np.isfinite(nu) and nu > 0 and not tie:
            for kw in ({},) + ((dict(min_e_act=bounds[0], max_e_act=bounds[1]),) if bounds else ()):
                G = gcall(jumps.to_graph, **kw)
                if sorted(G.nodes) != list(range(S)) or any(G.nodes[i].get('label') != labels_site[i] for i in range(S)):
                    raise Violation('graph-nodes', f'{list(G.nodes(data=True))[:4]}')
                wedges = {}
                for (s, d), n in wc.items():
                    e = -math.log(n / (wocc[s] * total_time) / nu) * oracle.K_B * temp / oracle.E_CHARGE
                    lo, hi = (kw.get('min_e_act') or -math.inf), (kw.get('max_e_act') or math.inf)
                    if lo <= e <= hi:
                        wedges[s, d] = e
                    elif min(abs(e - lo), abs(e - hi)) < 1e-9:
                        wedges[s, d] = None  # on the bound: either way
                got_e = {(u, v): dd['e_act'] for u, v, dd in G.edges(data=True)}
                for k, e in wedges.items():
                    if e is None:
                        continue
                    if k not in got_e:
                        raise Violation('graph-edge-set-is-matrix-support', f'{kw}: edge {k} missing; edges {sorted(got_e)}')
                    if abs(got_e[k] - e) > 1e-9 * max(1.0, abs(e)):
                        raise Violation('graph-activation-energy', f'edge {k}: {got_e[k]!r} vs {e!r}')
                for k in got_e:
                    if k not in wedges:
                        raise Violation('graph-edge-set-is-matrix-support', f'{kw}: unexpected edge {k}')
                info['labels'].append('graph')
    # ---- occupancy of time parts: the same definition on each part's own states
    if not double and 2 <= n_parts <= min(len(ev), T - 1):
        for k_, part in enumerate(gcall(tr.split, n_parts)):
            ps = np.asarray(part.states)
            po = np.array([float(site.species.num_atoms) for site in gcall(part.occupancy)])
            pw = np.array([np.sum(ps == i) for i in range(S)]) / len(ps)
            if np.abs(po - pw).max() > 1e-12:
                raise Violation('occupancy-is-fraction-of-frames', f'part {k_} of {n_parts} ({len(ps)} frames): {po.tolist()} vs {pw.tolist()}')
    # ---- rates
    # splitting is defined for n_parts up to min(#events, frames - 1) (C19)
    r = gcall(jumps.rates, n_parts, allow=(ValueError,)) if n_parts <= min(len(ev), T - 1) else Raised(None)
    if not isinstance(r, Raised):
        parts = gcall(jumps.split, n_parts)
        pc = [gcall(p.counter) for p in parts]
        # the same parts obtained independently: split the transitions, classify each part on its own
        from gemdat.jumps import Jumps as _J

        own = [gcall(_J, p, minimal_residence=jumps.minimal_residence, allow=(ValueError,)) for p in gcall(tr.split, n_parts)]
        if not any(isinstance(o, Raised) for o in own):
            for k_, (a_, b_) in enumerate(zip(pc, own)):
                if dict(a_) != dict(gcall(b_.counter)):
                    raise Violation('rates-parts-belong-to-this-object', f'part {k_} of {n_parts} behind rates()/split() counts {dict(a_)}, the same time part of these transitions classified on its own gives {dict(gcall(b_.counter))}')
        denom = n_atoms * total_time / n_parts
        pairs = [(a, b) for a in labels_site for b in labels_site]
        for pair in set(pairs):
            vals = [c[pair] for c in pc]
            if sum(vals) > c_lab[pair] or (n_parts == 1 and sum(vals) != c_lab[pair]):
                raise Violation('rates-consistent-with-jump-counts', f'{pair}: the parts behind rates() hold {vals} jumps but the whole has {c_lab[pair]} (minimal_residence={jumps.minimal_residence})')
            wm, ws = np.mean(vals) / denom, (np.std(vals, ddof=1) / denom if n_parts > 1 else float('nan'))
            gm, gs = float(r.loc[pair, 'rates']), float(r.loc[pair, 'std'])
            if abs(gm - wm) > 1e-9 * max(abs(wm), 1e-300) or (np.isfinite(ws) and abs(gs - ws) > 1e-9 * max(abs(ws), abs(wm), 1e-300)):
                raise Violation('rates-aggregate-part-counters', f'{pair}: {gm!r} +/- {gs!r} vs {wm!r} +/- {ws!r} from part counts {vals}')
        info['labels'].append('rates')
        # ---- activation energies: the same parts, aggregated with the documented formula
        #      E = -ln( n_jumps / (fraction of atoms at the start label x N x part time) [/2 for X->X] / attempt frequency ) k_B T / e
        nu_ = float(gcall(gcall(jumps.trajectory.metrics).attempt_frequency)[0])
        ae = gcall(jumps.activation_energies, n_parts, allow=(ValueError, ZeroDivisionError)) if n_parts >= 2 else Raised(None)
        st2_ = np.diff(np.asarray(gcall(lambda: jumps.trajectory.positions), float), axis=0)
        if not isinstance(ae, Raised) and np.isfinite(nu_) and nu_ > 0 and not double and not np.any(np.abs(np.abs(st2_ - np.round(st2_)) - 0.5) < 1e-6):
            locs = [gcall(p.atom_locations) for p in gcall(tr.split, n_parts)]
            with np.errstate(divide='ignore', invalid='ignore'):
                for pair in set(pairs):
                    nj = np.array([c[pair] for c in pc], float)
                    frac = np.array([l[pair[0]] for l in locs], float)
                    eff = nj / (frac * n_atoms * total_time / n_parts)
                    if pair[0] == pair[1]:
                        eff = eff / 2
                    e_arr = -np.log(eff / nu_) * oracle.K_B * temp / oracle.E_CHARGE
                    wm, ws = float(np.mean(e_arr)), float(np.std(e_arr, ddof=1))
                    gm, gs = float(ae.loc[pair, 'energy']), float(ae.loc[pair, 'std'])
                    for g_, w_, what in ((gm, wm, 'energy'), (gs, ws, 'std')):
                        if np.isfinite(w_):
                            if not abs(g_ - w_) <= 1e-9 * max(1.0, abs(w_)):
                                raise Violation('activation-energies-aggregate-part-counters', f'{pair} {what}: {g_!r} vs {w_!r} from part counts {nj.tolist()} and start-label fractions {frac.tolist()}')
                        elif np.isfinite(g_):
                            raise Violation('activation-energies-aggregate-part-counters', f'{pair} {what}: {g_!r} but the parts give {w_!r} (counts {nj.tolist()}, fractions {frac.tolist()})')
            info['labels'].append('activation-energies')
    # ---- label bookkeeping derived from the site list
    sp = list(gcall(lambda: jumps.site_pairs))
    if set(sp) != {(a, b) for a in labels_site for b in labels_site} or list(gcall(lambda: jumps.jump_names)) != ['->'.join(k) for k in sp]:
        raise Violation('site-pairs-are-all-label-pairs', f'{sp} for labels {labels_site}')
    if set(c_lab) - set(sp):
        raise Violation('label-counter-aggregates-matrix', f'counter keys {set(c_lab) - set(sp)} are not label pairs')


def jumps_or_none(tr, res=0):
    from gemdat.jumps import Jumps

    j = gcall(Jumps, tr, minimal_residence=res, allow=(ValueError,))
    if isinstance(j, Raised):
        if 'No jumps found' not in str(j.exc):
            raise Violation('unexpected-exception', repr(j.exc))
        return None
    return j


def run_pipeline(case):
    M = np.array(case['lattice']['matrix'])
    want, _ = sitesys.expected_states(case)
    if (want == -2).any() or not (want[1:] != want[:-1]).any():
        raise Skip()
    traj = sitesys.full_trajectory(case)
    tr = gcall(traj.transitions_between_sites, sitesys.sites(case), 'Li', site_radius=sitesys.radius_arg(case), site_inner_fraction=case['inner_fraction'])
    states = np.array(tr.states)  # a copy: the library must not change its own record either
    for obj in (traj, tr.trajectory, tr.diff_trajectory):
        cases.prelude(obj, case.get('prelude'))
    T, N = states.shape
    j = jumps_or_none(tr, case.get('residence', 0))
    info = {'labels': [case['lattice']['family']], 'site_frac': case['sites']['frac'], 'cell': case['lattice']['family'] + '/' + case['lattice']['orient']}
    for _pass in range(2):  # every observable once more on the same objects, after all the others were computed (stale or pruned caches)
        check_all(tr, j, states, case['sites']['labels'], M, N, T, case['time_step'], case['temperature'], info, n_parts=case.get('n_parts', 2), bounds=case.get('bounds'))
    nolabels = len(set(case['sites']['labels']))
    if j is not None:
        info['labels'].append('has-jumps')
    return {'nontrivial': j is not None and 'event-touching-nosite' in info['labels'] and nolabels >= 2, 'labels': sorted(set(info['labels']))}


def run_history(case):
    from gemdat.transitions import Transitions, _calculate_transition_events

    M = np.array(case['lattice']['matrix'])
    states = np.array(case['states'], dtype=int)
    inner = np.array(case['inner'], dtype=int)
    T, N = states.shape
    if not ((states[1:] != states[:-1]).any() or (inner[1:] != inner[:-1]).any()):
        raise Skip()
    S = len(case['sites']['frac'])
    assert states.max() < S
    events = gcall(_calculate_transition_events, atom_sites=states, atom_inner_sites=inner)
    coords = np.array(case['coords'])
    traj = cases.trajectory(coords, ['Li'] * N, M, case['time_step'], case['temperature'])
    tr = Transitions(trajectory=traj, diff_trajectory=cases.trajectory(coords, ['Li'] * N, M, case['time_step'], case['temperature']),
                     sites=sitesys.sites(case), events=events, states=states.copy(), inner_states=inner.copy())
    j = jumps_or_none(tr, case.get('residence', 0))
    info = {'labels': [case['lattice']['family']], 'site_frac': case['sites']['frac'], 'cell': case['lattice']['family'] + '/' + case['lattice']['orient']}
    for _pass in range(1 if case.get('single_pass') else 2):
        check_all(tr, j, states, case['sites']['labels'], M, N, T, case['time_step'], case['temperature'], info, n_parts=case.get('n_parts', 2), bounds=case.get('bounds'))
    if j is not None:
        info['labels'].append('has-jumps')
    return {'nontrivial': j is not None and 'event-touching-nosite' in info['labels'] and len(set(case['sites']['labels'])) >= 2, 'labels': sorted(set(info['labels']))}


@st.composite
def pipeline_cases(draw, tier):
    c = draw(gen.hop_systems(tier=tier, min_sites=2, max_sites=6, max_diff=3, max_frames=14 if tier == 'quick' else 40, min_labels=2))
    c['n_parts'] = draw(st.integers(1, 3))
    c['residence'] = draw(st.sampled_from([0, 0, 0, 1, 2]))
    if draw(st.booleans()):
        lo = draw(st.floats(-0.5, 0.5).filter(lambda x: abs(x) > 1e-6))
        c['bounds'] = [lo, lo + draw(st.floats(0.01, 1.0))]
    return c


@st.composite
def history_cases(draw, tier):
    lat = draw(gen.lattices())
    M = np.array(lat['matrix'])
    N = draw(st.integers(1, 4))
    k = draw(st.integers(1, 3))  # sites per atom: atom a only visits sites congruent a mod N => never two atoms on one site
    S = N * k
    h = draw(c03.histories(max_atoms=N, max_frames=80 if tier == 'quick' else 250, max_sites=k))
    st_loc, in_loc = np.array(h['states']), np.array(h['inner'])
    N = st_loc.shape[1]
    S = N * k
    glob = lambda arr: np.where(arr >= 0, arr * N + np.arange(N)[None, :], -1)  # noqa: E731
    states, inner = glob(st_loc), glob(in_loc)
    imode = draw(st.sampled_from(['as-drawn', 'equal', 'never-inner']))
    if imode == 'equal':
        inner = states
    elif imode == 'never-inner':
        inner = states * 0 - 1
    T = states.shape[0]
    frac = [[draw(st.floats(0, 1, exclude_max=True)) for _ in range(3)] for _ in range(S)]
    labels = [draw(st.sampled_from(['A', 'B', 'C'])) for _ in range(S)]
    if S >= 2 and len(set(labels)) < 2:
        labels[0], labels[1] = 'A', 'B'
    n = T * N * 3
    u = np.array(draw(st.lists(st.floats(-0.03, 0.03), min_size=n, max_size=n))).reshape(T, N, 3)
    base = np.array([[draw(st.floats(0, 1, exclude_max=True)) for _ in range(3)] for _ in range(N)])
    coords = base[None] + np.cumsum(u, axis=0)
    c = {'lattice': lat, 'sites': {'frac': frac, 'labels': labels}, 'states': states.tolist(), 'inner': inner.tolist(),
         'coords': (coords - np.floor(coords)).tolist(), 'time_step': draw(st.sampled_from([1e-15, 2e-15])), 'temperature': draw(st.sampled_from([300.0, 900.0])),
         'n_parts': draw(st.integers(1, 4)), 'residence': draw(st.sampled_from([0, 0, 1, 3]))}
    if draw(st.booleans()):
        lo = draw(st.floats(-0.5, 0.5).filter(lambda x: abs(x) > 1e-6))
        c['bounds'] = [lo, lo + draw(st.floats(0.01, 1.0))]
    return c


_EH = c03.Enum(1, 3, {'quick': 4, 'thorough': 6})
_EH_SITES = {'frac': [[0.1, 0.1, 0.1], [0.55, 0.15, 0.9], [0.2, 0.7, 0.45]], 'labels': ['A', 'B', 'A']}


def enum_size(tier):
    return _EH.size(tier)


def enum_case(tier, idx):
    h = _EH.case_at(tier, idx)
    T = len(h['states'])
    lat = {'family': 'monoclinic', 'orient': 'lower', 'params': [6.0, 7.0, 8.0, 90.0, 105.0, 90.0], 'matrix': oracle.matrix_from_params_lower(6.0, 7.0, 8.0, 90.0, 105.0, 90.0).tolist()}
    coords = [[[(0.13 * t + 0.07 * ((t * t) % 5)) % 1.0, (0.29 * t) % 1.0, (0.05 + 0.31 * t) % 1.0]] for t in range(T)]
    return {'lattice': lat, 'sites': _EH_SITES, 'states': h['states'], 'inner': h['inner'], 'coords': coords, 'time_step': 1e-15, 'temperature': 500.0,
            'n_parts': 1 + idx % 2, 'residence': [0, 0, 1][idx % 3], 'bounds': [-0.2, 0.3] if idx % 2 else None}


# ----------------------------------------------------------------------------- busy histories: hundreds to tens of thousands of moves between the same sites
BUSY = {'quick': [520, 1400, 140000], 'thorough': [520, 1400, 140000, 300000]}


def busy_size(tier):
    return len(BUSY[tier]) * 2


def busy_case(tier, idx):
    """ping-pong between two sites with dwell 1 (count-matrix entries of ~T/2, beyond 255 / 65535), a second atom hopping 0 -> none -> 2 -> none"""
    T = BUSY[tier][idx // 2]
    t = np.arange(T)
    a0 = (t % 2)                                  # 0,1,0,1,...
    a1 = np.where(t % 4 == 0, 3, np.where(t % 4 == 2, 2, -1)) if idx % 2 else np.full(T, -1)
    a1[0] = 2
    states = np.stack([a0, a1], axis=1)
    lat = gen.fixed_lattice('triclinic', 'lower')
    coords = np.zeros((T, 2, 3)) + np.array([[0.2, 0.2, 0.2], [0.7, 0.7, 0.7]])[None]
    return {'lattice': lat, 'sites': {'frac': [[0.1, 0.1, 0.1], [0.95, 0.1, 0.1], [0.5, 0.5, 0.5], [0.5, 0.9, 0.5]], 'labels': ['A', 'B', 'A', 'B']},
            'states': states.tolist(), 'inner': states.tolist(), 'coords': coords.tolist(), 'time_step': 1e-15, 'temperature': 500.0, 'n_parts': (2 if T < 10000 else 10**9), 'residence': 0, 'single_pass': True}


# ----------------------------------------------------------------------------- many sites (site-count dependent code paths)
MANY_SITES = {'quick': [257, 1001, 1100], 'thorough': [257, 1001, 1100, 2049, 4100]}


def many_sites_size(tier):
    return len(MANY_SITES[tier])


def many_sites_case(tier, idx):
    """S sites on a grid in a large cubic cell; two atoms hop between sites with the highest indices (and a few low ones), also through 'no site'"""
    S = MANY_SITES[tier][idx]
    g = int(np.ceil(S ** (1 / 3)))
    frac = np.array([[(i + 0.25) / g, (j + 0.25) / g, (k + 0.25) / g] for i in range(g) for j in range(g) for k in range(g)])[:S]
    L = 4.0 * g
    lat = {'family': 'cubic', 'orient': 'lower', 'params': [L, L, L, 90, 90, 90], 'matrix': (np.eye(3) * L).tolist()}
    seq0 = [S - 1, S - 2, S - 1, -1, S - 3, 1, S - 1, S - 2, 0, -1, S - 4, S - 1]
    seq1 = [2, 3, -1, S // 2, S // 2 + 1, S // 2, 3, 2, -1, -1, 2, S // 2]
    states = np.array([seq0, seq1]).T
    coords = np.zeros((len(seq0), 2, 3)) + np.array([[0.2, 0.2, 0.2], [0.7, 0.7, 0.7]])[None]
    return {'lattice': lat, 'sites': {'frac': frac.tolist(), 'labels': [['A', 'B', 'A', 'C'][i % 4] for i in range(S)]}, 'states': states.tolist(), 'inner': states.tolist(),
            'coords': coords.tolist(), 'time_step': 1e-15, 'temperature': 500.0, 'n_parts': 10**9, 'residence': 0, 'single_pass': True}  # (no rates: the library loops over all S^2 label pairs)


def run_many_sites(case):
    info = run_history(case)
    info['labels'] = [x for x in info['labels']] + [f'sites>{1000 * (len(case["sites"]["frac"]) // 1000)}']
    return info


SUBS = [
    Sub(name='pipeline', kind='hyp', run=run_pipeline, strategy=pipeline_cases,
        rule='hopping trajectories (1-3 diffusers, 2-6 sites, >=2 labels) in all cells through transitions_between_sites and Jumps; matrices, counters, diffusivity (1-3 dims), occupancy, graph (with/without energy bounds), rates',
        n={'quick': 120, 'thorough': 2500}, shards={'quick': 12, 'thorough': 16}),
    Sub(name='histories', kind='hyp', run=run_history, strategy=history_cases,
        rule='direct multi-atom histories (each atom on its own site subset, so no double occupancy) over labelled random site sets with events to and from "no site"; same clauses',
        n={'quick': 120, 'thorough': 2500}, shards={'quick': 12, 'thorough': 16}),
    Sub(name='enum-histories', kind='enum', run=run_history, size=enum_size, case_at=enum_case, exhaustive=True,
        rule='complete enumeration: every one-atom (outer, inner) history over 3 sites labelled A, B, A of length 2..4 (quick) / 2..6 (thorough) in a monoclinic cell; all bookkeeping clauses',
        shards={'quick': 16, 'thorough': 16}),
    Sub(name='many-sites', kind='enum', run=run_many_sites, size=many_sites_size, case_at=many_sites_case, exhaustive=True,
        rule='small family, complete: 257 / 1001 / 1100 (2049 / 4100) sites on a grid in a large cell, two atoms hopping between the sites with the highest indices, a few low ones and "no site"; all bookkeeping clauses (site-count dependent code paths, index packing)',
        shards={'quick': 3, 'thorough': 5}),
    Sub(name='busy-histories', kind='enum', run=run_history, size=busy_size, case_at=busy_case, exhaustive=True,
        rule='small family, complete: histories of 520 / 1400 / 140 000 (300 000) frames in which one atom moves between the same two sites in every frame (count-matrix entries of 260 - 70 000 (150 000): beyond 8- and 16-bit counters) with / without a second atom hopping through "no site"; all bookkeeping clauses',
        shards={'quick': 6, 'thorough': 8}),
]
