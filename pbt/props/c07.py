"""C07  Results depend only on geometry: orientation, origin, labelling invariance (metamorphic)."""
from __future__ import annotations

import math

import numpy as np
from hypothesis import strategies as st

from .. import cases, gen, oracle, sitesys
from ..runner import Raised, Skip, Sub, Violation, gcall

PROPERTY = 'C07'
LEVEL = 'exploration'
RULE = ('cases are full small systems (lattice, labelled sites, hopping diffusers, framework atoms of other species, temperature) plus a transformation '
        '(proper rotation of the cell, fractional translation of atoms and sites - free or a multiple of the voxel size -, permutation of atoms, permutation of sites); '
        'non-trivial = a non-identity transformation and at least one jump in the bundle, for translations additionally an atom or site wrapping through a face')
ASSUMPTIONS = [
    'positions are outside every guard band by construction, so discrete outputs must match exactly; real outputs to rtol 1e-9',
    'collective-jump comparison skipped when 1/(attempt frequency x time step) is within 1e-9 of an integer; RDF comparison skipped when a pair distance is within 1e-7 of a bin edge; '
    'grid comparison skipped when a sample is within 1e-9 of a voxel edge (all counted in the labels)',
    'path costs compared as edge costs (sum of mean endpoint energies), so ties between equally cheap paths are legal',
]
JC = ['atom index', 'start site', 'destination site', 'start time', 'stop time']
EC = ['atom index', 'start site', 'destination site', 'start inner site', 'destination inner site', 'time']


def system_from_case(case):
    diff = np.array(case['diff'], float)
    fw = case['framework']
    coords = np.concatenate([diff, np.array(fw['coords'], float)], axis=1)
    return {
        'matrix': np.array(case['lattice']['matrix'], float), 'site_frac': np.array(case['sites']['frac'], float) + np.array(case['sites'].get('image_shift') or 0, float), 'site_labels': list(case['sites']['labels']),
        'radius': None if case.get('auto_radius') else case['radius'], 'f': case['inner_fraction'], 'coords': coords, 'symbols': ['Li'] * diff.shape[1] + list(fw['symbols']),
        'dt': case['time_step'], 'temp': case['temperature'],
    }


def compute(sysd, case, flags):
    from gemdat.jumps import Jumps
    from gemdat.rdf import radial_distribution_between_species

    M = sysd['matrix']
    traj = cases.trajectory(sysd['coords'], sysd['symbols'], M, sysd['dt'], sysd['temp'])
    sites = cases.sites_structure(M, sysd['site_frac'], sysd['site_labels'])
    # (a per-label radius dict is the caller's object: the same one is handed to both analyses, as a user comparing two set-ups would)
    radius = sysd['radius'] if isinstance(sysd['radius'], dict) else (None if sysd['radius'] is None else float(sysd['radius']))
    tr = gcall(traj.transitions_between_sites, sites, 'Li', site_radius=radius, site_inner_fraction=sysd['f'])
    out = {'states': np.asarray(tr.states), 'inner': np.asarray(tr.inner_states)}
    out['events'] = sorted(tuple(int(x) for x in r) for r in tr.events[EC].to_numpy())
    out['tmatrix'] = np.asarray(gcall(tr.matrix))
    occ = gcall(tr.occupancy, allow=(ValueError,))  # (two atoms on one site in one frame: pymatgen refuses an occupancy above 1)
    if not isinstance(occ, Raised):
        out['occ'] = np.array([float(site.species.num_atoms) for site in occ])
        out['locations'] = dict(gcall(tr.atom_locations))
    j = gcall(Jumps, tr, allow=(ValueError,))
    if isinstance(j, Raised):
        out['jumps'] = None
    else:
        out['jumps'] = sorted(tuple(int(x) for x in r) for r in j.data[JC].to_numpy())
        out['jmatrix'] = np.asarray(gcall(j.matrix))
        out['jdiff'] = float(gcall(j.jump_diffusivity, 3))
        nu = float(gcall(gcall(j.trajectory.metrics).attempt_frequency)[0])
        x = 1.0 / (nu * sysd['dt']) if np.isfinite(nu) and nu > 0 else float('nan')
        if np.isfinite(x) and abs(x - round(x)) > 1e-9:
            c = gcall(j.collective, case['cutoff'])
            out['n_solo'], out['n_coll'] = int(c.n_solo_jumps), int(c.n_coll_jumps)
            out['pairs'] = sorted(tuple(sorted((tuple(int(a[k]) for k in JC), tuple(int(b[k]) for k in JC)))) for a, b in c.collective)
        else:
            flags.add('collective-skipped-integer-boundary')
    # radial distributions
    rd = case['rdf']
    others = sorted(set(sysd['symbols']) - {'Li'})
    out['rdf_species'] = {}
    for a, b in [('Li', others[0]), (others[0], 'Li'), ('Li', 'Li')]:
        r = gcall(radial_distribution_between_species, trajectory=traj, specie_1=a, specie_2=b, max_dist=rd['max_dist'], resolution=rd['resolution'])
        out['rdf_species'][a, b] = np.asarray(r.y, float)
    rs = gcall(tr.radial_distribution, floating_specie='Li', max_dist=rd['max_dist'], resolution=rd['resolution'])
    # the names of the "~>" states (no previous or no next site) are not specified (the label appended depends on an
    # arbitrary label order), so those states are merged into one class; "@X" and "X->Y" keep their names
    out['rdf_states'] = {}
    for state, coll in rs.items():
        cls = '~>' if state.startswith('~>') else state
        for r in coll:
            y = np.asarray(r.y)
            out['rdf_states'][cls, r.label] = out['rdf_states'][cls, r.label] + y if (cls, r.label) in out['rdf_states'] else y
    # metrics of the diffusing species
    m = gcall(traj.filter('Li').metrics)
    out['tracer'] = float(gcall(m.tracer_diffusivity, dimensions=3))
    out['vib'] = float(gcall(m.vibration_amplitude))
    out['com'] = float(gcall(m.tracer_diffusivity_center_of_mass, dimensions=3))
    out['com_all'] = float(gcall(gcall(traj.metrics).tracer_diffusivity_center_of_mass, dimensions=3))  # all species, mass-weighted
    # a two-species selection, requested in another order than the atoms are stored
    sel2 = gcall(traj.filter, [others[0], 'Li'])
    out['com_pair'] = float(gcall(gcall(sel2.metrics).tracer_diffusivity_center_of_mass, dimensions=3))
    out['density'] = float(gcall(m.particle_density))
    out['dist'] = np.asarray(gcall(traj.filter('Li').distances_from_base_position))
    # grids
    vol = gcall(traj.filter('Li').to_volume, resolution=case['resolution'])
    out['volume'] = np.asarray(vol.data)
    F = gcall(vol.get_free_energy, temperature=sysd['temp'])
    out['F'] = np.asarray(F.data)
    out['Fvol'] = F
    return out


def path_cost(Fvol, a, b):
    import networkx as nx

    p = gcall(Fvol.optimal_path, start=a, stop=b, allow=(nx.NetworkXNoPath,))
    if isinstance(p, Raised):
        return None  # the two occupied voxels are not connected through visited voxels
    e = [float(x) for x in p.energy]
    return sum(0.5 * (u + v) for u, v in zip(e, e[1:]))


def near_bin_edge(sysd, rd):
    """is any pair distance within 1e-7 of an RDF bin edge?"""
    M = sysd['matrix']
    edges = np.arange(0, rd['max_dist'] + 2 * rd['resolution'], rd['resolution'])
    for t in range(sysd['coords'].shape[0]):
        d = oracle.min_image_dist(sysd['coords'][t], sysd['coords'][t], M).ravel()
        d = d[d > 1e-12]
        if d.size and np.min(np.abs(d[:, None] - edges[None, :])) < 1e-7:
            return True
    return False


def near_voxel_edge(frac, dims):
    x = (np.asarray(frac) % 1.0).reshape(-1, 3) * np.array(dims)[None, :]
    return bool(np.any(np.abs(x - np.round(x)) < 1e-9))


def run(case):
    want, _ = sitesys.expected_states(case)
    if (want == -2).any() or not (want[1:] != want[:-1]).any():
        raise Skip()
    A = system_from_case(case)
    if case.get('auto_radius'):
        # automatic site radius (site_radius=None): the radius is min(2 x vibration amplitude, half the smallest site separation - 0.005);
        # the comparison is only meaningful when no atom sits within 1e-6 A of that radius (a last-bit change of the amplitude would flip it)
        from gemdat.metrics import TrajectoryMetrics

        li_ = [i for i, s_ in enumerate(A['symbols']) if s_ == 'Li']
        st_ = np.diff(A['coords'][:, li_], axis=0)
        if np.any(np.abs(np.abs(st_ - np.round(st_)) - 0.5) < 1e-6):
            raise Skip()  # a half-cell step is a genuine tie of the minimum image: the amplitude (hence the radius) is not defined by the geometry
        amp = float(gcall(TrajectoryMetrics(cases.trajectory(A['coords'], A['symbols'], A['matrix'], A['dt'], A['temp']).filter('Li')).vibration_amplitude))
        sf_ = np.array(case['sites']['frac'], float)
        D_ = oracle.min_image_dist(sf_, sf_, A['matrix'])
        sep_ = float(np.min(D_[np.triu_indices(len(sf_), 1)])) if len(sf_) > 1 else float('inf')
        r_ = 2 * amp if sep_ >= 4 * amp else 0.5 * sep_ - 0.005
        if not np.isfinite(r_) or r_ <= 0 or abs(sep_ - 4 * amp) < 1e-6:
            raise Skip()
        for frac_ in (1.0, case['inner_fraction']):
            w_, _ = sitesys.expected_states(case, radii=np.full(len(sf_), r_), fraction=frac_, band=1e-6)
            if (w_ == -2).any() or (frac_ == 1.0 and not (w_[1:] != w_[:-1]).any()):
                raise Skip()  # (a history without any change is outside the event builder's domain)
    tf = case['transform']
    T, N, _ = A['coords'].shape
    Nd = sum(1 for s in A['symbols'] if s == 'Li')
    S = len(A['site_labels'])
    flags = set()
    B = dict(A)
    amap = list(range(Nd))
    smap = list(range(S))
    roll = None
    kind = tf['kind']
    L = np.linalg.norm(A['matrix'], axis=1)
    dims = [int(math.floor(l / case['resolution'])) for l in L]
    if kind == 'rotate':
        B['matrix'] = A['matrix'] @ oracle.quat_to_rot(tf['quat']).T
    elif kind in ('translate', 'translate-grid', 'translate-site-to-face'):
        if kind == 'translate-site-to-face':
            # move one site to a signed distance eps x (its radius) from cell faces, so that its sphere straddles them
            k = tf['site'] % S
            rk = sitesys.radii_per_site(case)[k]
            tau = np.zeros(3)
            for i in range(3):
                if tf['eps'][i] is not None:
                    tau[i] = -A['site_frac'][k, i] + tf['eps'][i] * rk / L[i]
            tau = tau - np.floor(tau)
        elif kind == 'translate-grid':
            tau = np.array([tf['k'][i] % dims[i] / dims[i] for i in range(3)])
            roll = [tf['k'][i] % dims[i] for i in range(3)]
        else:
            tau = np.array(tf['tau'], float)
        cb = A['coords'] + tau[None, None, :]
        B['coords'] = cb - np.floor(cb)
        sb = A['site_frac'] + tau[None, :]
        B['site_frac'] = sb - np.floor(sb) if tf.get('wrap_sites', True) else sb
        if np.any(np.floor(cb) != np.floor(A['coords'])) or np.any(np.floor(sb) != np.floor(A['site_frac'])):
            flags.add('wraps-through-face')
    elif kind == 'perm-atoms':
        perm = list(tf['perm'][:N]) if len(tf['perm']) >= N else list(range(N))
        perm = [p for p in perm if p < N] + [p for p in range(N) if p not in perm]
        # new atom order: new[i] = old[perm[i]]
        B['coords'] = A['coords'][:, perm]
        B['symbols'] = [A['symbols'][p] for p in perm]
        li_new = [p for p in perm if A['symbols'][p] == 'Li']  # old indices of Li atoms in new order
        amap = [li_new.index(a) for a in range(Nd)]
    elif kind == 'perm-sites':
        perm = [p for p in tf['perm'] if p < S] + [p for p in range(S) if p not in tf['perm']]
        B['site_frac'] = A['site_frac'][perm]
        B['site_labels'] = [A['site_labels'][p] for p in perm]
        smap = [perm.index(s) for s in range(S)]
    else:
        raise AssertionError(kind)
    identity = (kind == 'rotate' and np.allclose(B['matrix'], A['matrix'])) or (kind.startswith('translate') and np.allclose(B['coords'], A['coords'])) or \
        (kind == 'perm-atoms' and amap == list(range(Nd)) and B['symbols'] == A['symbols']) or (kind == 'perm-sites' and smap == list(range(S)))

    # a per-frame step of exactly half a cell edge is a genuine tie of the minimum image: everything derived from
    # unwrapped displacements (metrics, attempt frequency and hence the collective window) is then not comparable
    li_idx = [i for i, s_ in enumerate(A['symbols']) if s_ == 'Li']
    steps = np.diff(A['coords'][:, li_idx], axis=0)
    steps = steps - np.round(steps)
    tie = bool(np.any(np.abs(np.abs(steps) - 0.5) < 1e-6))
    if tie:
        flags.add('half-cell-tie-metrics-skipped')

    a = compute(A, case, flags)
    b = compute(B, case, flags)
    if tie:
        for d_ in (a, b):
            for key in ('n_solo', 'n_coll', 'pairs'):
                d_.pop(key, None)
    sm = np.array(smap + [-1])  # index -1 -> -1

    def ms(arr):
        return sm[np.asarray(arr)]

    def fail(what, detail=''):
        raise Violation(f'{kind}-changes-{what}', f'{detail} (transformation {tf}, cell {case["lattice"]["family"]}/{case["lattice"]["orient"]})')

    # states
    for key in ('states', 'inner'):
        exp = np.empty_like(a[key])
        for old, new in enumerate(amap):
            exp[:, new] = ms(a[key][:, old])
        if not np.array_equal(b[key], exp):
            t_, c_ = np.argwhere(b[key] != exp)[0]
            fail('site-' + key, f'frame {t_} atom {c_}: {int(b[key][t_, c_])} vs expected {int(exp[t_, c_])}')
    ev = sorted((amap[r[0]], int(sm[r[1]]), int(sm[r[2]]), int(sm[r[3]]), int(sm[r[4]]), r[5]) for r in a['events'])
    if ev != b['events']:
        fail('events', f'{b["events"][:3]} vs {ev[:3]}')
    P = np.zeros((S, S), dtype=int)
    if not np.array_equal(b['tmatrix'][np.ix_(smap, smap)], a['tmatrix']):
        fail('transitions-matrix')
    if ('occ' in a) != ('occ' in b):
        fail('occupancy', 'defined in only one representation')
    if 'occ' in a:
        if b['occ'].shape != a['occ'].shape or np.abs(b['occ'][smap] - a['occ']).max() > 1e-12:
            fail('occupancy', f'{a["occ"].tolist()} vs {b["occ"].tolist()} (site map {smap})')
        if set(a['locations']) != set(b['locations']) or any(abs(a['locations'][k_] - b['locations'][k_]) > 1e-12 for k_ in a['locations']):
            fail('atom-locations', f'{a["locations"]} vs {b["locations"]}')
    if (a['jumps'] is None) != (b['jumps'] is None):
        fail('jumps', 'jumps found in only one representation')
    if a['jumps'] is not None:
        jm = sorted((amap[r[0]], int(sm[r[1]]), int(sm[r[2]]), r[3], r[4]) for r in a['jumps'])
        if jm != b['jumps']:
            fail('jumps', f'{b["jumps"][:3]} vs {jm[:3]}')
        if not np.array_equal(b['jmatrix'][np.ix_(smap, smap)], a['jmatrix']):
            fail('jump-matrix')
        if abs(a['jdiff'] - b['jdiff']) > 1e-9 * max(abs(a['jdiff']), 1e-300):
            fail('jump-diffusivity', f'{a["jdiff"]!r} vs {b["jdiff"]!r}')
        if 'n_solo' in a and 'n_solo' in b:
            if (a['n_solo'], a['n_coll']) != (b['n_solo'], b['n_coll']):
                fail('collective-counts', f'solo/collective {(a["n_solo"], a["n_coll"])} vs {(b["n_solo"], b["n_coll"])}')
            mp = sorted(tuple(sorted(((amap[x[0]], int(sm[x[1]]), int(sm[x[2]]), x[3], x[4]) for x in pair))) for pair in a['pairs'])
            if mp != b['pairs']:
                fail('collective-pairs')
            flags.add('collective-compared')
    # radial distributions
    if near_bin_edge(A, case['rdf']):
        flags.add('rdf-skipped-distance-on-bin-edge')
    else:
        for k in a['rdf_species']:
            if a['rdf_species'][k].shape != b['rdf_species'][k].shape or np.abs(a['rdf_species'][k] - b['rdf_species'][k]).max() > 1e-9 * max(1.0, np.abs(a['rdf_species'][k]).max()):
                fail('species-rdf', f'{k}')
        keys = {k for k, v in a['rdf_states'].items() if v.sum()} | {k for k, v in b['rdf_states'].items() if v.sum()}
        for k in keys:
            va, vb = a['rdf_states'].get(k), b['rdf_states'].get(k)
            if va is None or vb is None or not np.array_equal(va, vb):
                fail('per-state-rdf', f'state/symbol {k}: {None if va is None else va.tolist()} vs {None if vb is None else vb.tolist()}')
        flags.add('rdf-compared')
    # metrics
    # real-valued metrics: relative 1e-9 plus an absolute round-off allowance tied to the natural scale of the quantity
    # (a diffusivity or an amplitude spread that is pure round-off is legal)
    edge2 = float(np.sum(A['matrix'] ** 2, axis=1).max())
    scale = {'tracer': edge2 * 1e-20 / (6 * T * A['dt']), 'vib': math.sqrt(edge2), 'density': 0.0}
    scale['com'] = scale['com_all'] = scale['com_pair'] = scale['tracer']
    # the vibration amplitude splits the speed signal at its sign changes: with a (near-)zero speed the split, and hence the
    # value, is decided by round-off, so it is only compared when every speed is clearly non-zero
    sp = np.diff(a['dist'], axis=1, prepend=0.0)
    vib_ok = not tie and not bool(np.any(np.abs(sp) < 1e-9 * math.sqrt(edge2)))
    if not vib_ok:
        flags.add('vibration-amplitude-skipped-zero-speed')
    for key in (('density',) if tie else (('tracer', 'com', 'com_all', 'com_pair', 'vib', 'density') if vib_ok else ('tracer', 'com', 'com_all', 'com_pair', 'density'))):
        if abs(a[key] - b[key]) > 1e-9 * max(abs(a[key]), abs(b[key])) + 1e-9 * scale[key]:
            fail('metric-' + key, f'{a[key]!r} vs {b[key]!r}')
    dexp = np.empty_like(a['dist'])
    for old, new in enumerate(amap):
        dexp[new] = a['dist'][old]
    if not tie and np.abs(dexp - b['dist']).max() > 1e-9 * max(1.0, np.abs(dexp).max()):
        fail('distances')
    # grids
    if a['volume'].sum() != b['volume'].sum():
        fail('volume-sum')
    li = [i for i, s in enumerate(A['symbols']) if s == 'Li']
    liB = [i for i, s in enumerate(B['symbols']) if s == 'Li']
    vdims = a['volume'].shape
    ratio = L / case['resolution']
    if bool(np.any(np.abs(ratio - np.round(ratio)) < 1e-9)):
        flags.add('grid-skipped-ambiguous-size')  # floor(L/res) is decided by round-off in L (C08 assumption)
    elif a['volume'].shape != b['volume'].shape:
        fail('volume-shape', f'{a["volume"].shape} vs {b["volume"].shape}')
    elif kind not in ('translate', 'translate-site-to-face'):
        if near_voxel_edge(A['coords'][:, li], vdims) or near_voxel_edge(B['coords'][:, liB], vdims):
            flags.add('grid-skipped-sample-on-voxel-edge')
        else:
            shift = roll if roll is not None else [0, 0, 0]
            if list(vdims) != dims and roll is not None:
                flags.add('grid-skipped-ambiguous-size')
            else:
                ea = np.roll(a['volume'], shift, axis=(0, 1, 2))
                if not np.array_equal(ea, b['volume']):
                    fail('density-volume', f'grid {vdims}, expected roll {shift}')
                fa = np.roll(a['F'], shift, axis=(0, 1, 2))
                if not np.array_equal(fa, b['F']):
                    fail('free-energy-grid')
                occ = [tuple(int(v) for v in idx) for idx in np.argwhere(a['volume'] > 0)]
                if len(occ) >= 2:
                    s0, s1 = occ[0], occ[-1]
                    t0 = tuple((s0[i] + shift[i]) % vdims[i] for i in range(3))
                    t1 = tuple((s1[i] + shift[i]) % vdims[i] for i in range(3))
                    ca, cb_ = path_cost(a['Fvol'], s0, s1), path_cost(b['Fvol'], t0, t1)
                    if (ca is None) != (cb_ is None):
                        fail('optimal-path-existence', f'{ca!r} vs {cb_!r} between voxels {s0}->{s1} / {t0}->{t1}')
                    if ca is not None and abs(ca - cb_) > 1e-9 * max(1.0, abs(ca)):
                        fail('optimal-path-cost', f'{ca!r} vs {cb_!r} between voxels {s0}->{s1} / {t0}->{t1}')
                    flags.add('path-compared')
                flags.add('grid-compared')
    labels = [kind, case['lattice']['family']] + sorted(flags) + (['automatic-radius'] if case.get('auto_radius') else [])
    if a['jumps'] is not None:
        labels.append('has-jumps')
    nt = (not identity) and a['jumps'] is not None and (not kind.startswith('translate') or 'wraps-through-face' in flags)
    return {'nontrivial': bool(nt), 'labels': labels}


@st.composite
def invariance_cases(draw, tier):
    c = draw(gen.hop_systems(tier=tier, framework=True, min_sites=2, max_sites=5, max_diff=3, max_frames=10 if tier == 'quick' else 24, min_labels=1))
    M = np.array(c['lattice']['matrix'])
    L = np.linalg.norm(M, axis=1)
    c['resolution'] = float(L.min() / draw(st.sampled_from([1.5, 2.5, 3.3, 5.1])))
    c['rdf'] = {'max_dist': float(draw(st.sampled_from([2.0, 3.5, 5.0]))), 'resolution': float(draw(st.sampled_from([0.25, 0.5, 0.7])))}
    c['cutoff'] = float(draw(st.sampled_from([1.0, 2.5, 4.0, 6.5])))
    kind = draw(st.sampled_from(['rotate', 'translate', 'translate-grid', 'translate-site-to-face', 'perm-atoms', 'perm-sites']))
    tf = {'kind': kind}
    if kind == 'rotate':
        q = draw(st.tuples(*[st.floats(-1, 1)] * 4).filter(lambda q: sum(x * x for x in q) > 1e-2))
        tf['quat'] = list(q)
    elif kind == 'translate':
        tf['tau'] = [draw(st.one_of(st.floats(0, 1, exclude_max=True), st.sampled_from([0.5, 0.25, 1e-9, 1 - 1e-9]))) for _ in range(3)]
    elif kind == 'translate-grid':
        tf['k'] = [draw(st.integers(0, 40)) for _ in range(3)]
    elif kind == 'translate-site-to-face':
        tf['site'] = draw(st.integers(0, 7))
        tf['eps'] = [draw(st.sampled_from([None, -1.5, -0.9, -0.3, 0.0, 0.3, 0.9, 1.1, 1.3, 1.6, 2.0])) for _ in range(3)]
    else:
        tf['perm'] = draw(st.permutations(list(range(8))))
    tf['wrap_sites'] = draw(st.booleans())
    c['transform'] = tf
    c['auto_radius'] = isinstance(c['radius'], float) and draw(st.integers(0, 4)) == 0  # site_radius=None: the library chooses the radius
    return c


def is_pow2(n):
    return n >= 1 and (n & (n - 1)) == 0


def run_grid_roll(case):
    """whole-voxel translations of a trajectory whose atoms sit exactly on voxel edges / centres (exact on power-of-two axes)"""
    M = np.array(case['lattice']['matrix'], float)
    coords = np.array(case['coords'], float)
    T, N, _ = coords.shape
    res, temp = case['resolution'], case['temperature']
    k = case['k']
    ta = cases.trajectory(coords, ['Li'] * N, M, 1e-15, temp)
    va = gcall(ta.to_volume, resolution=res)
    dims = va.data.shape
    if list(dims) != case['dims']:
        raise Skip()  # grid size decided by round-off in the cell lengths
    tau = np.array([(k[i] % dims[i]) / dims[i] for i in range(3)])
    cb = coords + tau[None, None, :]
    cb = cb - np.floor(cb)
    tb = cases.trajectory(cb, ['Li'] * N, M, 1e-15, temp)
    vb = gcall(tb.to_volume, resolution=res)
    shift = [k[i] % dims[i] for i in range(3)]
    if vb.data.shape != dims or not np.array_equal(np.roll(va.data, shift, axis=(0, 1, 2)), vb.data):
        raise Violation('translate-grid-changes-density-volume', f'grid {dims}: translating all atoms by {shift} whole voxels does not roll the density by the same shift (atoms on voxel edges: {case["on_edge"]})')
    Fa, Fb = gcall(va.get_free_energy, temperature=temp), gcall(vb.get_free_energy, temperature=temp)
    if not np.array_equal(np.roll(Fa.data, shift, axis=(0, 1, 2)), Fb.data):
        raise Violation('translate-grid-changes-free-energy-grid', f'grid {dims}, shift {shift}')
    occ = [tuple(int(v) for v in idx) for idx in np.argwhere(va.data > 0)]
    labels = ['on-edge-samples'] if case['on_edge'] else []
    if len(occ) >= 2:
        s0, s1 = occ[0], occ[-1]
        t0 = tuple((s0[i] + shift[i]) % dims[i] for i in range(3))
        t1 = tuple((s1[i] + shift[i]) % dims[i] for i in range(3))
        ca, cb_ = path_cost(Fa, s0, s1), path_cost(Fb, t0, t1)
        if (ca is None) != (cb_ is None) or (ca is not None and abs(ca - cb_) > 1e-9 * max(1.0, abs(ca))):
            raise Violation('translate-grid-changes-optimal-path-cost', f'{ca!r} vs {cb_!r}')
        labels.append('path-compared')
    return {'nontrivial': any(shift) and case['on_edge'], 'labels': labels}


@st.composite
def grid_roll_cases(draw, tier):
    lat = draw(gen.lattices())
    M = np.array(lat['matrix'])
    L = np.linalg.norm(M, axis=1)
    n0 = draw(st.sampled_from([2, 4, 8]))
    ax0 = int(np.argmin(L))
    res = float(L[ax0] / (n0 + 0.5))
    dims = [int(math.floor(l / res)) for l in L]
    if any(abs(l / res - round(l / res)) < 1e-6 for l in L):
        dims = [0, 0, 0]  # ambiguous grid size: the run skips
    T, N = draw(st.integers(1, 4)), draw(st.integers(1, 3))
    on_edge = False
    coords = np.zeros((T, N, 3))
    for t in range(T):
        for a in range(N):
            for i in range(3):
                n = max(dims[i], 1)
                if is_pow2(n) and draw(st.booleans()):
                    coords[t, a, i] = draw(st.integers(0, 2 * n - 1)) / (2 * n)  # voxel edges and centres, exactly representable
                    on_edge = on_edge or (coords[t, a, i] * n) % 1 == 0
                else:
                    coords[t, a, i] = (draw(st.integers(0, n - 1)) + draw(st.floats(0.1, 0.9))) / n
    return {'lattice': lat, 'coords': coords.tolist(), 'resolution': res, 'dims': dims, 'k': [draw(st.integers(0, 9)) for _ in range(3)],
            'temperature': draw(st.sampled_from([300.0, 900.0])), 'on_edge': bool(on_edge)}


SUBS = [
    Sub(name='invariance', kind='hyp', run=run, strategy=invariance_cases,
        rule='hopping systems with framework species in all cells; bundle = states, inner states, events, jumps, both matrices, jump diffusivity, collective counts and pairs, species and per-state RDFs, tracer metrics, density volume, free-energy grid, optimal-path cost; compared under the induced relabelling / grid roll',
        n={'quick': 110, 'thorough': 1500}, shards={'quick': 16, 'thorough': 16}),
    Sub(name='grid-roll', kind='hyp', run=run_grid_roll, strategy=grid_roll_cases,
        rule='whole-voxel translations of trajectories whose atoms sit exactly on voxel edges / centres of power-of-two grid axes (exact in binary floating point) or well inside voxels on the other axes: density volume and free-energy grid roll by the same shift, optimal-path cost unchanged',
        n={'quick': 60, 'thorough': 1500}, shards={'quick': 4, 'thorough': 16}),
]
