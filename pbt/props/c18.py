"""C18  Orientation vectors are minimum-image bonds; transforms/autocorrelation exact."""
from __future__ import annotations

import numpy as np
from hypothesis import assume
from hypothesis import strategies as st

from .. import cases, gen, oracle
from ..runner import Raised, Skip, Sub, Violation, gcall

PROPERTY = 'C18'
LEVEL = 'exploration'
RULE = ('cases are molecular trajectories: 1-3 centres with four satellites each in a distorted tetrahedron (bonds 0.8-1.6 A within a factor 1.45 of the shortest, centres far apart), '
        'one rigid random rotation per frame and cluster, clusters placed across cell faces, atoms in shuffled order, all cells; non-trivial = at least one bond crossing a face in a '
        'non-orthogonal or rotated cell and at least 3 frames')
ASSUMPTIONS = [
    'precondition of the satellite matching rule (exactly the four bonded satellites lie within 1.5 x the shortest bond of their centre at frame 0) is verified per case by the oracle; cases violating it are skipped and counted',
    'bond length well below half the smallest perpendicular cell width',
    'point groups: the 20 pymatgen point groups whose operation matrices are orthogonal (checked at run time)',
    'autocorrelation: see known finding C18/autocorr-irfft-length; generated disagreements are attributed to it only if the reported values equal the length-(2F-2) inverse-FFT model to 1e-9',
]
PG = ['-1', '-4', '-42m', '-43m', '1', '2', '2/m', '222', '23', '4', '4/m', '4/mmm', '422', '432', '4mm', 'm', 'm-3', 'm-3m', 'mm2', 'mmm']
TET = np.array([[1, 1, 1], [1, -1, -1], [-1, 1, -1], [-1, -1, 1]], float) / np.sqrt(3)


def build(case):
    """-> trajectory, expected vectors (T, 4*Nc, 3) in gemdat's order, crossing flag; raises Skip if the matching precondition fails"""
    M = np.array(case['lattice']['matrix'], float)
    Minv = np.linalg.inv(M)
    T = case['frames']
    centres = np.array(case['centres'], float)  # (Nc, 3) fractional
    Nc = len(centres)
    bonds = np.array(case['bonds'], float)  # (Nc, 4, 3) Cartesian at the reference orientation
    quats = np.array(case['quats'], float)  # (T, Nc, 4)
    drift = np.array(case['drift'], float)  # (T, Nc, 3) small fractional motion of the centres
    cent = np.zeros((T, Nc, 3))
    sat = np.zeros((T, Nc, 4, 3))
    exp = np.zeros((T, Nc, 4, 3))
    for t in range(T):
        for c in range(Nc):
            R = oracle.quat_to_rot(quats[t, c])
            cent[t, c] = centres[c] + drift[t, c]
            b = bonds[c] @ R.T
            exp[t, c] = b
            sat[t, c] = cent[t, c][None, :] + b @ Minv
    # atom table: centres 'P', satellites 'S', shuffled
    atoms = [('P', c, None) for c in range(Nc)] + [('S', c, j) for c in range(Nc) for j in range(4)]
    order = [k for k in case['order'] if k < len(atoms)]
    order += [k for k in range(len(atoms)) if k not in order]
    atoms = [atoms[k] for k in order]
    coords = np.zeros((T, len(atoms), 3))
    for i, (sym, c, j) in enumerate(atoms):
        coords[:, i] = cent[:, c] if sym == 'P' else sat[:, c, j]
    wrapped = coords - np.floor(coords)
    if case.get('image_shift'):
        sh = np.array(case['image_shift'], float)  # (T, n_atoms, 3) integer cells: the same atoms given in other periodic images
        wrapped = wrapped + sh[: wrapped.shape[0], : wrapped.shape[1]]
    symbols = [a[0] for a in atoms]
    # gemdat's ordering: centres in trajectory order; satellites of a centre by ascending satellite index
    cent_list = [a[1] for a in atoms if a[0] == 'P']
    sat_list = [(a[1], a[2]) for a in atoms if a[0] == 'S']
    # matching precondition at frame 0 (brute force)
    cpos = np.array([cent[0, c] for c in cent_list])
    spos = np.array([sat[0, c, j] for c, j in sat_list])
    D = oracle.min_image_dist(cpos, spos, M)
    crit = 1.5 * D.min()
    for i, c in enumerate(cent_list):
        near = {k for k in range(len(sat_list)) if D[i, k] < crit}
        own = {k for k, (cc, _) in enumerate(sat_list) if cc == c}
        if near != own or np.any(np.abs(D[i] - crit) < 1e-6):
            raise Skip()
    want = []
    for c in cent_list:
        for cc, j in sat_list:
            if cc == c:
                want.append(exp[:, c, j])
    want = np.stack(want, axis=1)  # (T, 4*Nc, 3)
    # verify the oracle's own vectors against brute-force minimum image (independent of how they were constructed)
    crossing = False
    for t in range(T):
        k = 0
        for i, c in enumerate(cent_list):
            for cc, j in sat_list:
                if cc == c:
                    v, d = oracle.min_image_vectors([cent[t, c]], [sat[t, c, j]], M)
                    assert np.abs(v[0, 0] - want[t, k]).max() < 1e-8, 'generator: bond is not the minimum image'
                    if np.any(np.floor(cent[t, c]) != np.floor(sat[t, c, j])):
                        crossing = True
                    k += 1
    traj = cases.trajectory(wrapped, symbols, M, 1e-15, 300.0, case.get('species_kind', 'Species'))
    return traj, want, crossing


def align_bonds(v, want, case):
    """The statement fixes the set of bonds of every centre, not their order inside the centre's block: find one permutation
    per centre (constant over all frames, matched on the whole time series) and return the oracle re-ordered accordingly."""
    tol = 1e-9 * max(1.0, np.abs(want).max())
    if v.shape != want.shape:
        raise Violation('vectors-shape', f'{v.shape} vs {want.shape}')
    if np.abs(v - want).max() <= tol:
        return want
    nb = want.shape[1]
    re = want.copy()
    for c0 in range(0, nb, 4):
        blk_w = want[:, c0:c0 + 4].transpose(1, 0, 2).reshape(4, -1)
        blk_v = v[:, c0:c0 + 4].transpose(1, 0, 2).reshape(4, -1)
        perm = oracle.match_rows(blk_v, blk_w, tol)
        if perm is None:
            d = np.abs(blk_v[:, None, :] - blk_w[None, :, :]).max(axis=-1).min(axis=1)
            b = c0 + int(np.argmax(d))
            raise Violation('vectors-are-minimum-image-bonds', f'bond {b} (centre {c0 // 4}): its time series {v[:2, b].tolist()}... matches none of the minimum-image centre->satellite vectors of that centre, e.g. {want[0, c0:c0 + 4].tolist()} (cell {case["lattice"]["family"]}/{case["lattice"]["orient"]})')
        re[:, c0:c0 + 4] = want[:, c0 + perm]
    return re


def alias_model(v):
    """the length-(2F-2) inverse-FFT variant of the autocorrelation (known finding)"""
    T, N, _ = v.shape
    ac = np.zeros((N, T))
    norm = np.arange(T, 0, -1)
    for c in range(3):
        f = np.fft.rfft(v[:, :, c], n=2 * T - 1, axis=0)
        p = np.abs(f) ** 2
        a = np.fft.irfft(p, axis=0)[:T, :]
        ac += a.T / norm
    return ac / ac[:, 0, None]


def definition_autocorr(v):
    T, N, _ = v.shape
    ac = np.zeros((N, T))
    for tau in range(T):
        ac[:, tau] = np.sum(v[tau:] * v[: T - tau], axis=-1).sum(axis=0) / (T - tau)
    return ac / ac[:, :1]


# the elevation is an arcsin: within ~1e-8 rad of the poles it is only determined to sqrt(machine epsilon), so the inverse of the
# spherical representation is compared to 5e-8 relative (found by the multi-seed sweep: a vector 1e-8 rad off the z axis)
SPH_TOL = 5e-8


def run(case):
    from gemdat.orientations import Orientations

    traj, want, crossing = build(case)
    T = case['frames']
    o = gcall(Orientations, traj, 'P', 'S')
    # read-only views of the parent requested before anything is derived from it (whatever they remember must not travel into the
    # normalised / symmetrised / transformed objects)
    for op in case.get('parent_reads', []):
        if op == 'spherical':
            gcall(lambda: o.vectors_spherical)
        elif op == 'autocorrelation':
            gcall(o.autocorrelation, allow=(ValueError,))
        elif op == 'vectors':
            gcall(lambda: o.vectors)
    v = np.asarray(o.vectors, float)
    want = align_bonds(v, want, case)
    # normalise
    n = np.asarray(gcall(o.normalize).vectors, float)
    ln = np.linalg.norm(want, axis=-1, keepdims=True)
    no_ = gcall(o.normalize)
    if np.abs(np.linalg.norm(n, axis=-1) - 1).max() > 1e-12 or np.abs(n - want / ln).max() > 1e-9:
        raise Violation('normalize-unit-and-parallel', '')
    nsph = np.asarray(gcall(lambda: no_.vectors_spherical), float)
    naz, nel, nr = np.radians(nsph[..., 0]), np.radians(nsph[..., 1]), nsph[..., 2]
    nback = np.stack([nr * np.cos(nel) * np.cos(naz), nr * np.cos(nel) * np.sin(naz), nr * np.sin(nel)], axis=-1)
    if nsph.shape != want.shape or np.abs(nback - want / ln).max() > SPH_TOL:
        raise Violation('spherical-invertible', f'after normalize: spherical -> Cartesian differs from the unit vectors by {np.abs(nback - want / ln).max() if nsph.shape == want.shape else nsph.shape}')
    # transform
    A = np.array(case['matrix'], float) * float(case.get('matrix_scale', 1.0))  # "all 3x3 matrices": also changes of unit (Angstrom -> m, -> fm)
    to = gcall(o.transform, A)
    tv = np.asarray(to.vectors, float)
    wt = np.einsum('ij,tbj->tbi', A, want)
    tscale = max(float(np.abs(A).max()), 1e-300) * float(np.abs(want).max())
    if tv.shape != wt.shape or np.abs(tv - wt).max() > 1e-9 * tscale:
        raise Violation('transform-applies-matrix', f'max deviation {np.abs(tv - wt).max() if tv.shape == wt.shape else tv.shape} (matrix entries up to {np.abs(A).max():.3e})')
    # ... and the spherical representation of the transformed vectors is invertible as well (rows the matrix maps to ~0 have no direction)
    tsph = np.asarray(gcall(lambda: to.vectors_spherical), float)
    ok = np.linalg.norm(wt, axis=-1) > 1e-6 * tscale
    if ok.any():
        az_, el_, r_ = np.radians(tsph[..., 0]), np.radians(tsph[..., 1]), tsph[..., 2]
        tback = np.stack([r_ * np.cos(el_) * np.cos(az_), r_ * np.cos(el_) * np.sin(az_), r_ * np.sin(el_)], axis=-1)
        if tsph.shape != wt.shape or not np.all(np.isfinite(tback[ok])) or np.abs(tback[ok] - wt[ok]).max() > SPH_TOL * tscale:
            raise Violation('spherical-invertible', f'after transform by a matrix with entries up to {np.abs(A).max():.3e}: spherical -> Cartesian differs from the vectors by {np.abs(tback[ok] - wt[ok]).max() if tsph.shape == wt.shape else tsph.shape} (vector lengths ~{np.linalg.norm(wt, axis=-1).max():.3e})')
    # symmetrise by point-group name and by an explicit stack of operations
    from pymatgen.symmetry.groups import PointGroup

    name = case['point_group']
    ops = np.array([np.array(e.rotation_matrix, float) for e in PointGroup(name).symmetry_ops])
    if not all(np.allclose(m @ m.T, np.eye(3)) for m in ops):
        raise Skip()
    Q = oracle.quat_to_rot(case.get('conj', [0.3, -0.5, 0.7, 0.4]))
    ops_name = ops
    for how in ('name', 'stack', 'stack-conjugated'):
        # the same point group in a rotated Cartesian frame: orthogonal operations Q g Q^T with non-integer entries
        ops = np.einsum('ij,kjl,ml->kim', Q, ops_name, Q) if how == 'stack-conjugated' else ops_name
        s = gcall(o.symmetrize, sym_group=name) if how == 'name' else gcall(o.symmetrize, sym_ops=ops.transpose(1, 2, 0))
        sv = np.asarray(s.vectors, float)
        nb, no = want.shape[1], len(ops)
        if sv.shape != (T, nb * no, 3):
            raise Violation('symmetrize-one-image-per-operation', f'{how}: shape {sv.shape} vs {(T, nb * no, 3)}')
        wimg = np.einsum('kij,tbj->tbki', ops, want).reshape(T, nb * no, 3)
        # compare as one multiset per frame: neither the order of the images nor the grouping of the rows (per vector or per
        # operation) is specified; every (vector, operation) image must occur with its multiplicity and nothing else
        for t in range(T):
            if oracle.match_rows(wimg[t], sv[t], 1e-6) is None:
                raise Violation('symmetrize-images-under-the-group', f'{how}, group {name}: frame {t}: rows {np.round(sv[t], 4).tolist()[:8]} are not the images {np.round(wimg[t], 4).tolist()[:8]} of the {nb} vectors under the {no} operations')
    # a long run (the vectors of this one repeated cyclically): more than 2^20 numbers in one symmetrisation
    if case.get('long_sym'):
        import dataclasses

        reps = -(-case['long_sym'] // T)
        o_long = gcall(lambda: dataclasses.replace(o, in_vectors=np.tile(np.asarray(o.vectors, float), (reps, 1, 1))))
        s_long = np.asarray(gcall(o_long.symmetrize, sym_group=name).vectors, float)
        nb, no = want.shape[1], len(ops_name)
        if s_long.shape != (reps * T, nb * no, 3):
            raise Violation('symmetrize-one-image-per-operation', f'{reps * T} frames: shape {s_long.shape} vs {(reps * T, nb * no, 3)}')
        wimg = np.einsum('kij,tbj->tbki', ops_name, want).reshape(T, nb * no, 3)
        for t in sorted({0, 1, reps * T - 1, reps * T // 2, 909 % (reps * T), 910 % (reps * T), 2731 % (reps * T)}):
            if oracle.match_rows(wimg[t % T], s_long[t], 1e-6) is None:
                raise Violation('symmetrize-images-under-the-group', f'group {name}, {reps * T} frames x {nb} vectors x {no} operations: frame {t} does not hold the images of its vectors')
    # what a derived object reports must not depend on what its parent was asked before the derivation
    if 'autocorrelation' in case.get('parent_reads', []):
        o_p = gcall(Orientations, traj, 'P', 'S')  # a pristine parent, never asked anything
        for how_, f_ in (('normalize', lambda x: x.normalize()), ('transform', lambda x: x.transform(A))):
            a1 = gcall(gcall(f_, o).autocorrelation, allow=(ValueError,))
            a2 = gcall(gcall(f_, o_p).autocorrelation, allow=(ValueError,))
            if isinstance(a1, Raised) != isinstance(a2, Raised) or (not isinstance(a1, Raised) and (np.shape(a1) != np.shape(a2) or not np.allclose(np.asarray(a1, float), np.asarray(a2, float), rtol=1e-9, atol=1e-12, equal_nan=True))):
                raise Violation('derived-object-independent-of-parent-history', f'autocorrelation of the {how_}d object differs between a parent that was asked for its autocorrelation first and a pristine one')
    # spherical representation is invertible
    sph = np.asarray(gcall(lambda: o.vectors_spherical), float)
    az, el, r = np.radians(sph[..., 0]), np.radians(sph[..., 1]), sph[..., 2]
    back = np.stack([r * np.cos(el) * np.cos(az), r * np.cos(el) * np.sin(az), r * np.sin(el)], axis=-1)
    if sph.shape != want.shape or np.abs(back - want).max() > SPH_TOL * max(1.0, np.abs(want).max()):
        raise Violation('spherical-invertible', '')
    if np.abs(r - ln[..., 0]).max() > 1e-9:
        raise Violation('lengths-are-periodic-distances', '')
    # the same analysis repeated after the trajectory object has grown in place (nothing cached on the object may go stale)
    k = case.get('extend_at')
    if k and 1 <= k < T:
        pos = np.array(gcall(lambda: traj.positions))
        sym = [sp.symbol for sp in traj.species]
        Mx = np.array(case['lattice']['matrix'])
        ta = cases.trajectory(pos[:k], sym, Mx, 1e-15, 300.0, case.get('species_kind', 'Species'))
        tb = cases.trajectory(pos[k:], sym, Mx, 1e-15, 300.0, case.get('species_kind', 'Species'))
        o1 = gcall(Orientations, ta, 'P', 'S')
        align_bonds(np.asarray(o1.vectors, float), want[:k], case)
        gcall(ta.extend, tb)
        o2 = gcall(Orientations, ta, 'P', 'S')
        v2 = np.asarray(o2.vectors, float)
        if v2.shape != want.shape:
            raise Violation('vectors-after-extend', f'orientation vectors of a {k}-frame trajectory extended in place to {T} frames have shape {v2.shape}, expected {want.shape}')
        align_bonds(v2, want, case)
    fam, ori = case['lattice']['family'], case['lattice']['orient']
    skew = fam in ('hexagonal', 'rhombohedral', 'monoclinic', 'triclinic') or ori == 'rot'
    labels = [fam, 'orient-' + ori, 'pg-' + name]
    if crossing:
        labels.append('bond-crosses-face')
    return {'nontrivial': crossing and skew and T >= 3, 'labels': labels}


def run_autocorr(case):
    from gemdat.orientations import Orientations

    traj, want, crossing = build(case)
    T = case['frames']
    o = gcall(Orientations, traj, 'P', 'S')
    want = align_bonds(np.asarray(o.vectors, float), want, case)
    if case.get('normalized'):
        o = gcall(o.normalize)
        want = want / np.linalg.norm(want, axis=-1, keepdims=True)
    ac = gcall(o.autocorrelation, allow=(ValueError,))
    if isinstance(ac, Raised):
        raise Violation('autocorrelation-equals-definition', f'raised {type(ac.exc).__name__} for {T} frame(s)')
    ac = np.asarray(ac, float)
    wd = definition_autocorr(want)
    if ac.shape != wd.shape:
        raise Violation('autocorrelation-shape', f'{ac.shape} vs (vectors, lags) = {wd.shape}')
    if np.abs(ac - wd).max() > 1e-7:
        b, tau = np.unravel_index(np.argmax(np.abs(ac - wd)), ac.shape)
        raise Violation('autocorrelation-equals-definition', f'vector {b} lag {tau}: {ac[b, tau]!r} vs time-origin average {wd[b, tau]!r} ({T} frames)')
    return {'nontrivial': T >= 3, 'labels': [f'frames={min(T, 9)}']}


def sig_autocorr(sub, case, v):
    """known finding: only the autocorrelation disagrees and it equals the aliased (irfft length 2F-2) model"""
    if sub != 'autocorrelation' or v.clause != 'autocorrelation-equals-definition':
        return False
    from gemdat.orientations import Orientations

    traj, want, _ = build(case)
    T = case['frames']
    if T == 1:
        return 'raised ValueError' in v.detail  # irfft of a single point is undefined: same root cause
    o = Orientations(traj, 'P', 'S')
    want = align_bonds(np.asarray(o.vectors, float), want, case)
    if case.get('normalized'):
        want = want / np.linalg.norm(want, axis=-1, keepdims=True)
        o = o.normalize()
    got = np.asarray(o.autocorrelation(), float)
    model = alias_model(want)
    return got.shape == model.shape and bool(np.abs(got - model).max() <= 1e-9)


SIGNATURES = {'c18_autocorr_alias': sig_autocorr}


@st.composite
def mol_cases(draw, tier, min_frames=2):
    big = tier == 'thorough'
    lat = draw(gen.lattices(lmin=6.0, lmax=14.0))
    M = np.array(lat['matrix'])
    wmin = float(oracle.perp_widths(M).min())
    assume(wmin >= 5.0)
    Nc = draw(st.integers(1, 3))
    T = draw(st.integers(min_frames, 24 if big else 10))
    b0 = draw(st.floats(0.8, 1.1))
    near_unit = draw(st.integers(0, 4)) == 0  # bonds already within one per cent of unit length
    bonds = []
    for _ in range(Nc):
        R0 = oracle.quat_to_rot(draw(st.tuples(*[st.floats(-1, 1)] * 4).filter(lambda q: sum(x * x for x in q) > 1e-2)))
        lens = [b0 * draw(st.floats(1.0, 1.4)) for _ in range(4)]
        lens[draw(st.integers(0, 3))] = b0
        if near_unit:
            lens = [1.0 + draw(st.sampled_from([-0.008, -0.003, 0.0, 0.004, 0.007])) for _ in range(4)]
        jitter = np.array([[draw(st.floats(-0.08, 0.08)) for _ in range(3)] for _ in range(4)])
        d = TET + jitter
        d = d / np.linalg.norm(d, axis=1, keepdims=True)
        bonds.append(((d * np.array(lens)[:, None]) @ R0.T).tolist())
    # centres: on a coarse grid so that they are far apart; near faces often
    g = 2
    cells = draw(st.lists(st.integers(0, g**3 - 1), min_size=Nc, max_size=Nc, unique=True))
    origin = [draw(st.sampled_from([0.0, 0.02, 0.97, 0.25, draw(st.floats(0, 1, exclude_max=True))])) for _ in range(3)]
    centres = [[(origin[k] + ((c // (g * g), (c // g) % g, c % g)[k]) / g) % 1.0 for k in range(3)] for c in cells]
    q = st.tuples(*[st.floats(-1, 1)] * 4).filter(lambda q: sum(x * x for x in q) > 1e-2)
    quats = [[list(draw(q)) for _ in range(Nc)] for _ in range(T)]
    drift = [[[draw(st.floats(-0.01, 0.01)) for _ in range(3)] for _ in range(Nc)] for _ in range(T)]
    return {'lattice': lat, 'frames': T, 'centres': centres, 'bonds': bonds, 'quats': quats, 'drift': drift,
            'order': draw(st.permutations(list(range(15)))), 'matrix': [[draw(st.floats(-2, 2)) for _ in range(3)] for _ in range(3)], 'matrix_scale': draw(st.sampled_from([1.0, 1.0, 1.0, 1e-10, 1e-5, 1e-15, 1e6, 1e12])),
            'parent_reads': draw(st.lists(st.sampled_from(['spherical', 'spherical', 'autocorrelation', 'vectors']), max_size=2)),
            'long_sym': draw(st.sampled_from([None, None, None, None, None, 911, 1000, 2731, 3000])),
            'image_shift': ([[[draw(st.sampled_from([0, 0, 0, 1, -1, 3])) for _ in range(3)] for _ in range(5 * Nc)] for _ in range(T)] if draw(st.integers(0, 3)) == 0 else None),
            'point_group': draw(st.sampled_from(PG)), 'species_kind': draw(st.sampled_from(['Species', 'Element'])), 'normalized': draw(st.booleans()),
            'conj': draw(st.sampled_from([[0.3, -0.5, 0.7, 0.4], [0.9, 0.1, 0.1, 0.4], [0.5, 0.5, 0.5, 0.5]])), 'extend_at': draw(st.integers(0, 6))}


SUBS = [
    Sub(name='vectors-and-transforms', kind='hyp', run=run, strategy=lambda tier: mol_cases(tier),
        rule='bond vectors vs brute-force minimum-image vectors; normalise; transform by a random 3x3 matrix; symmetrise with each of 20 orthogonal point groups (by name and as an operation stack) compared as per-vector multisets of images; spherical inverse',
        n={'quick': 60, 'thorough': 1500}, shards={'quick': 12, 'thorough': 16}),
    Sub(name='autocorrelation', kind='hyp', run=run_autocorr, strategy=lambda tier: mol_cases(tier, min_frames=1),
        rule='autocorrelation vs the O(F^2) time-origin average normalised at lag 0 (1-10 (24) frames); disagreements are attributed to the known finding only when they equal the aliased-FFT model',
        n={'quick': 40, 'thorough': 1000}, shards={'quick': 4, 'thorough': 16}),
]
