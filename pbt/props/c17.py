"""C17  Shape analysis collects exactly the symmetry-equivalent points in the radius."""
from __future__ import annotations

import math

import numpy as np
from hypothesis import assume
from hypothesis import strategies as st

from .. import cases, gen, oracle
from ..runner import Skip, Sub, Violation, gcall

PROPERTY = 'C17'
LEVEL = 'exploration'
RULE = ('cases are (space group number, compatible lattice optionally rotated, site anywhere in the cell with near-face positions over-represented, input positions = points '
        'planted near symmetry images of the site + uniform points, radius in (0.2 A, 0.45 x smallest perpendicular width), optional integer supercell); '
        'non-trivial = at least one selected pair whose operated site lies outside [0,1) or whose minimum image is not the zero image')
ASSUMPTIONS = [
    'symmetry operations are taken from pymatgen as data (rotation matrix + translation in fractional coordinates) and applied with own arithmetic',
    'cases in which a pair distance lies within 1e-9 A of the radius are skipped (either outcome would be legal)',
    'lattice compatible with the crystal system of the group (hexagonal axes for trigonal groups), so every operation is an isometry',
]
QUICK_GROUPS = [1, 2, 4, 5, 12, 14, 15, 19, 33, 43, 62, 63, 70, 88, 99, 123, 129, 139, 141, 146, 148, 161, 166, 167, 176, 186, 194, 198, 216, 225, 227, 229, 230]


def system_of(n):
    if n <= 2:
        return 'triclinic'
    if n <= 15:
        return 'monoclinic'
    if n <= 74:
        return 'orthorhombic'
    if n <= 142:
        return 'tetragonal'
    if n <= 194:
        return 'hexagonal'
    return 'cubic'


def ops_of(n):
    from pymatgen.symmetry.groups import SpaceGroup

    sg = SpaceGroup.from_int_number(n)
    return sg, [(np.array(o.rotation_matrix, float), np.array(o.translation_vector, float)) for o in sg]


def expected_points(site, positions, ops, M, radius):
    """ordered list of expected Cartesian points, per op then per position; None if a distance is inside the band"""
    pts = []
    nontrivial = False
    Minv = np.linalg.inv(M)
    positions = np.asarray(positions, float)
    for R, t in ops:
        sym = R @ site + t
        Rinv = np.linalg.inv(R)
        for lo in range(0, len(positions), 20000):  # (in blocks: the image enumeration of a quarter of a million positions at once would need gigabytes)
            vec, dist, img = oracle.min_image_vectors([sym], positions[lo:lo + 20000], M, return_image=True)
            d = dist[0]
            if np.any(np.abs(d - radius) < 1e-9):
                return None, False
            sel = d < radius
            if not sel.any():
                continue
            delta_f = vec[0][sel] @ Minv  # fractional minimum-image vectors
            pts.extend((delta_f @ Rinv.T) @ M)
            if np.any((sym < 0) | (sym >= 1)) or np.any(img[0][sel] != 0):
                nontrivial = True
    return np.array(pts).reshape(-1, 3), nontrivial


def run(case):
    from gemdat.shape import ShapeAnalyzer
    from pymatgen.core import PeriodicSite

    M = np.array(case['lattice']['matrix'], float)
    Minv = np.linalg.inv(M)
    sg, ops = ops_of(case['group'])
    lat = cases.lattice(case['lattice'])
    sites = [PeriodicSite('Li', np.array(s, float), lat, label=('Li' if case.get('same_label') else f'S{i}')) for i, s in enumerate(case['sites'])]
    an = ShapeAnalyzer(sites=sites, lattice=lat, spacegroup=sg)
    site_fracs = [np.array(s, float) for s in case['sites']]
    labels = [system_of(case['group'])]
    sh = case.get('shift')
    if sh:
        # the analyser with its sites moved by given vectors (Cartesian or fractional; None = leave this site): the property is about whatever sites it holds
        vecs = [None if v is None else list(v) for v in sh['vectors'][:len(sites)]] + [None] * max(0, len(sites) - len(sh['vectors']))
        an = gcall(an.shift_sites, vecs, coords_are_cartesian=sh['cartesian'])
        site_fracs = [f if v is None else (f + (np.array(v, float) @ Minv if sh['cartesian'] else np.array(v, float))) for f, v in zip(site_fracs, vecs)]
        got_f = [np.array(x.frac_coords, float) for x in an.sites]
        if len(got_f) != len(site_fracs) or any(oracle.circ_diff(g, w).max() > 1e-9 for g, w in zip(got_f, site_fracs)):
            raise Violation('shifted-sites', f'{[g.tolist() for g in got_f]} vs {[w.tolist() for w in site_fracs]}')
        labels.append('shifted-sites')
    shapes, nontrivial, total, wants = analyse(case, an, site_fracs, ops, M, labels)
    if case.get('optimize') and all(len(w) for w in wants):
        # sites moved to the centroid of their own cloud (optimize_sites), then analysed again
        an2 = gcall(an.optimize_sites, shapes)
        site_fracs2 = [f + np.mean(w, axis=0) @ Minv for f, w in zip(site_fracs, wants)]
        got_f = [np.array(x.frac_coords, float) for x in an2.sites]
        if len(got_f) != len(site_fracs2) or any(oracle.circ_diff(g, w).max() > 1e-6 for g, w in zip(got_f, site_fracs2)):
            raise Violation('optimised-sites-are-site-plus-centroid', f'{[g.tolist() for g in got_f]} vs {[w.tolist() for w in site_fracs2]}')
        # (the analysis of the moved sites uses the analyser's own site coordinates, so a last-bit difference of the centroid cannot flip a point)
        _, nt2, tot2, _ = analyse(case, an2, got_f, ops, M, [], guard=1e-7)
        nontrivial |= nt2
        labels.append('optimised-sites')
    if total:
        labels.append('has-points')
    if case['lattice']['orient'] == 'rot':
        labels.append('rotated-cell')
    return {'nontrivial': nontrivial and total > 0, 'labels': labels}


def analyse(case, an, site_fracs, ops, M, labels, guard=None):
    radius = case['radius']
    positions = np.array(case['positions'], float)
    tile = case.get('tile_to')
    if tile:
        positions = positions[np.arange(tile) % len(positions)]  # a long run: the generated positions visited cyclically, one atom per frame
    sc = case.get('supercell')
    if sc:
        # the trajectory lives in a supercell: unit-cell position p + integer cell offset, in supercell fractional coordinates
        offs = np.array(case['cell_offsets'], float)
        if tile:
            offs = offs[np.arange(tile) % len(offs)]
        scale = np.array(sc, float)
        sup = (positions + offs) / scale[None, :]
        T = case['frames']
        n = len(sup) // T * T
        if n == 0:
            raise Skip()
        traj = cases.trajectory(sup[:n].reshape(T, n // T, 3), ['Li'] * (n // T), M * scale[:, None])
        positions = positions[:n]
        pin = positions.copy()
        before = np.array(traj.positions)
        if case.get('touch'):
            gcall(lambda: traj.displacements)  # leaves the trajectory in the displacement representation
        gcall(an.analyze_trajectory, traj, supercell=tuple(sc), radius=min(radius, 0.3))
        if case.get('touch'):
            gcall(traj.mean_squared_displacement)  # an earlier analysis of the same trajectory
        shapes = gcall(an.analyze_trajectory, traj, supercell=tuple(sc), radius=radius)
        if np.abs(((np.array(traj.positions) - before + 0.5) % 1.0) - 0.5).max() > (1e-9 if case.get('touch') else 0):
            raise Violation('input-positions-unchanged', 'analyze_trajectory(supercell=...) modified the trajectory it was given')
        labels.append('supercell')
    elif case.get('via_trajectory'):
        T = case['frames']
        n = len(positions) // T * T
        if n == 0:
            raise Skip()
        positions = positions[:n]
        traj = cases.trajectory(positions.reshape(T, n // T, 3), ['Li'] * (n // T), M)
        before = np.array(traj.positions)
        if case.get('touch'):
            gcall(lambda: traj.displacements)
        gcall(an.analyze_trajectory, traj, radius=min(radius, 0.3))
        if case.get('touch'):
            gcall(traj.mean_squared_displacement)
        shapes = gcall(an.analyze_trajectory, traj, radius=radius)
        if np.abs(((np.array(traj.positions) - before + 0.5) % 1.0) - 0.5).max() > (1e-9 if case.get('touch') else 0):
            raise Violation('input-positions-unchanged', 'analyze_trajectory modified the trajectory it was given')
        labels.append('trajectory')
    else:
        pin = positions.copy()
        shapes = gcall(an.analyze_positions, pin, radius=radius)
        if not np.array_equal(pin, positions):
            raise Violation('input-positions-unchanged', 'analyze_positions modified the caller\'s position array')
    if len(shapes) != len(site_fracs):
        raise Violation('one-shape-per-site', f'{len(shapes)}')
    nontrivial = False
    total = 0
    wants = []
    for site, shape in zip(site_fracs, shapes):
        site = [float(x) for x in site]
        if guard is not None:
            lo, _ = expected_points(np.array(site, float), positions % 1.0, ops, M, radius - guard)
            hi, _ = expected_points(np.array(site, float), positions % 1.0, ops, M, radius + guard)
            if lo is None or hi is None or len(lo) != len(hi):
                raise Skip()  # a pair within the guard band of the radius
        want, nt = expected_points(np.array(site, float), positions % 1.0, ops, M, radius)
        if want is None:
            raise Skip()
        wants.append(want)
        nontrivial |= nt
        got = np.asarray(shape.coords, float).reshape(-1, 3)
        total += len(want)
        if np.linalg.norm(got, axis=1).max(initial=0) >= radius + 1e-7:
            k = int(np.argmax(np.linalg.norm(got, axis=1)))
            raise Violation('every-point-within-radius', f'space group {case["group"]}: point {got[k].tolist()} lies {np.linalg.norm(got[k]):.4f} A from the site centre {site}, radius {radius}')
        if len(got) != len(want):
            raise Violation('point-count-equals-pair-count', f'space group {case["group"]}: {len(got)} points, {len(want)} (operation, position) pairs within {radius} A of the equivalent site {site}')
        if len(want):
            # same nested order (operation, then position); fall back to a multiset match
            if np.abs(got - want).max() > 1e-6:
                # the order of the collected points is not specified: compare as multisets
                perm = oracle.match_rows(want, got, 1e-6)
                if perm is None:
                    d = np.abs(want[:, None, :] - got[None, :, :]).max(axis=-1).min(axis=1)
                    k = int(np.argmax(d))
                    raise Violation('point-is-inverse-operation-image', f'space group {case["group"]}: expected point {want[k].tolist()} (image under the inverse operation) has no counterpart among the collected points (nearest is {d[k]:.3e} A away; site {site})')
            if np.abs(np.sort(shape.distances()) - np.sort(np.linalg.norm(want, axis=1))).max() > 1e-6:
                raise Violation('distance-to-centre-equals-source-distance', '')
            if np.abs(np.asarray(shape.centroid(), float) - want.mean(axis=0)).max() > 1e-6 or np.abs(np.stack([shape.x, shape.y, shape.z], axis=1) - got).max() > 0:
                raise Violation('shape-centroid-and-components', '')
        if shape.radius != radius:
            raise Violation('shape-radius', '')
    return shapes, nontrivial, total, wants


@st.composite
def shape_cases(draw, tier):
    group = draw(st.sampled_from(QUICK_GROUPS)) if tier == 'quick' else draw(st.integers(1, 230))
    system = system_of(group)
    fam = {'hexagonal': 'hexagonal'}.get(system, system)
    lat = draw(gen.lattices(families=[fam], orients=['pmg', 'pmg', 'rot'], lmin=4.0, lmax=11.0))
    M = np.array(lat['matrix'])
    wmin = float(oracle.perp_widths(M).min())
    radius = float(draw(st.floats(0.2, 0.45 * wmin)))
    coord = st.one_of(st.floats(0, 1, exclude_max=True), st.sampled_from([0.0, 0.02, 0.95, 0.98, 0.5, 0.25, 1 - 1e-9]))
    n_sites = draw(st.integers(1, 2))
    sites = [[draw(coord) for _ in range(3)] for _ in range(n_sites)]
    _, ops = ops_of(group)
    Minv = np.linalg.inv(M)
    dirs = gen.unit_dirs()
    positions = []
    for _ in range(draw(st.integers(1, 8))):
        R, t = ops[draw(st.integers(0, len(ops) - 1))]
        sym = R @ np.array(sites[draw(st.integers(0, n_sites - 1))]) + t
        d = np.array(dirs[draw(st.integers(0, 25))]) * radius * draw(st.sampled_from([0.0, 0.3, 0.9, 0.999, 1.001, 1.2, 1 - 2e-8, 1 + 2e-8, 1 - 2.5e-9 / radius, 1 + 2.5e-9 / radius]))  # (the last two: 2.5e-9 A inside / outside the sphere)
        p = sym + d @ Minv
        positions.append((p - np.floor(p)).tolist())
    for _ in range(draw(st.integers(0, 4))):
        positions.append([draw(st.floats(0, 1, exclude_max=True)) for _ in range(3)])
    case = {'group': group, 'lattice': lat, 'sites': sites, 'positions': positions, 'radius': radius, 'same_label': draw(st.booleans()), 'touch': draw(st.booleans())}
    if draw(st.integers(0, 3)) == 0:
        cart = draw(st.booleans())
        vec = st.lists(st.floats(-1.5, 1.5) if cart else st.floats(-0.6, 0.6), min_size=3, max_size=3)
        case['shift'] = {'cartesian': cart, 'vectors': [draw(st.one_of(st.none(), vec)) for _ in range(n_sites)]}
    case['optimize'] = draw(st.integers(0, 3)) == 0
    mode = draw(st.sampled_from(['positions', 'positions', 'trajectory', 'supercell']))
    if mode == 'trajectory':
        case['via_trajectory'] = True
        case['frames'] = draw(st.integers(1, 3))
    elif mode == 'supercell':
        sc = [draw(st.integers(1, 3)) for _ in range(3)]
        case['supercell'] = sc
        case['frames'] = draw(st.integers(1, 2))
        case['cell_offsets'] = [[draw(st.integers(0, s - 1)) for s in sc] for _ in positions]
    return case


@st.composite
def long_shape_cases(draw, tier):
    c = draw(shape_cases(tier).filter(lambda c: c.get('via_trajectory') or c.get('supercell')))
    c['tile_to'] = c['frames'] = draw(st.sampled_from([2499, 2500, 2501, 3000, 4097, 5001] + ([10001] if tier == 'thorough' else [])))

    c['optimize'] = False
    return c


@st.composite
def huge_shape_cases(draw, tier):
    """a quarter of a million positions and more in one analysis (groups of order <= 4 only: the brute force stays affordable)"""
    c = draw(shape_cases('thorough').filter(lambda c: (c.get('via_trajectory') or c.get('supercell')) and c['group'] <= 15 and len(ops_of(c['group'])[1]) <= 4))
    c['tile_to'] = c['frames'] = draw(st.sampled_from([262143, 262145, 270001] + ([524289] if tier == 'thorough' else [])))
    c['optimize'] = False
    c['touch'] = False
    return c


def run_from_structure(case):
    """analyser built by ShapeAnalyzer.from_structure from a structure whose origin is shifted (non-standard setting): the
    symmetry operations must be those of that very structure"""
    from gemdat.shape import ShapeAnalyzer
    from pymatgen.core import Structure
    from pymatgen.symmetry.analyzer import SpacegroupAnalyzer

    M = np.array(case['lattice']['matrix'], float)
    lat = cases.lattice(case['lattice'])
    st_ = Structure.from_spacegroup(case['group'], lat, ['Li'], [case['site']])
    st_.translate_sites(list(range(len(st_))), case['origin'], frac_coords=True, to_unit_cell=True)
    if len(st_) > 200:
        raise Skip()
    try:
        sga_ops = SpacegroupAnalyzer(st_).get_space_group_operations()
    except Exception:  # noqa: BLE001 - spglib cannot determine the symmetry of this generated structure: outside the precondition
        raise Skip() from None
    ops_i = [(np.array(o.rotation_matrix, float), np.array(o.translation_vector, float)) for o in sga_ops]
    an = gcall(ShapeAnalyzer.from_structure, st_)
    radius = case['radius']
    # positions: near the atoms of the structure (which are the symmetry images of the unique site) + uniform points
    fc = np.array(st_.frac_coords)
    Minv = np.linalg.inv(M)
    dirs = gen.unit_dirs()
    pos = []
    for k, (ai, di, fr) in enumerate(case['near']):
        p = fc[ai % len(fc)] + (np.array(dirs[di]) * radius * fr) @ Minv
        pos.append(p - np.floor(p))
    pos = np.array(pos + case['uniform'])
    shapes = gcall(an.analyze_positions, pos.copy(), radius=radius)
    total = 0
    for site, shape in zip(an.sites, shapes):
        want, _nt = expected_points(np.array(site.frac_coords, float), pos, ops_i, M, radius)
        if want is None:
            raise Skip()
        got = np.asarray(shape.coords, float).reshape(-1, 3)
        total += len(want)
        if len(got) != len(want):
            raise Violation('point-count-equals-pair-count', f'from_structure, space group {case["group"]} with origin shifted by {case["origin"]}: {len(got)} points, {len(want)} (operation, position) pairs within {radius} A')
        if len(want):
            if oracle.match_rows(want, got, 1e-5) is None:
                raise Violation('point-is-inverse-operation-image', f'from_structure, space group {case["group"]}, origin {case["origin"]}: points differ from the images under the structure\'s own operations')
            if np.linalg.norm(got, axis=1).max() >= radius + 1e-7:
                raise Violation('every-point-within-radius', f'from_structure, space group {case["group"]}')
    shifted = any(abs(x) > 1e-9 for x in case['origin'])
    return {'nontrivial': shifted and total > 0, 'labels': [system_of(case['group'])] + (['origin-shifted'] if shifted else [])}


@st.composite
def structure_cases(draw, tier):
    group = draw(st.sampled_from([2, 4, 5, 12, 14, 15, 19, 33, 62, 63, 88, 123, 129, 139, 148, 166, 176, 194, 198, 216, 225, 227]))
    system = system_of(group)
    lat = draw(gen.lattices(families=[system], orients=['pmg'], lmin=4.5, lmax=9.0))
    M = np.array(lat['matrix'])
    wmin = float(oracle.perp_widths(M).min())
    radius = float(draw(st.floats(0.2, min(1.2, 0.45 * wmin))))
    site = [round(draw(st.floats(0.03, 0.47)), 3) + 0.013 * (k + 1) for k in range(3)]  # a general position
    origin = [draw(st.sampled_from([0.0, 0.0, 0.25, 0.1, 0.37, draw(st.floats(0, 1, exclude_max=True))])) for _ in range(3)]
    near = [[draw(st.integers(0, 400)), draw(st.integers(0, 25)), draw(st.sampled_from([0.0, 0.3, 0.9, 0.999, 1.001, 1.2]))] for _ in range(draw(st.integers(2, 8)))]
    uniform = [[draw(st.floats(0, 1, exclude_max=True)) for _ in range(3)] for _ in range(draw(st.integers(0, 3)))]
    return {'group': group, 'lattice': lat, 'site': site, 'origin': origin, 'radius': radius, 'near': near, 'uniform': uniform}


SUBS = [
    Sub(name='shapes', kind='hyp', run=run, strategy=shape_cases,
        rule='33 space groups covering all crystal systems and centrings (quick) / all 230 by number (thorough); compatible lattice, optionally rotated; 1-2 sites incl. near-face positions; points planted at 0, 0.3, 0.9, 0.999, 1.001, 1.2 x radius from symmetry images + uniform points; positions given directly, as a trajectory, or as a 1-3^3 supercell trajectory; one case in four moves the sites first (shift_sites, Cartesian or fractional vectors, sites may leave [0,1)), one in four re-analyses after optimize_sites (site + centroid of its cloud); centroid / x / y / z of each shape',
        n={'quick': 100, 'thorough': 2500}, shards={'quick': 12, 'thorough': 16}),
    Sub(name='long-trajectories', kind='hyp', shrink=False, run=run, strategy=long_shape_cases,
        rule='the trajectory / supercell-trajectory forms of the shapes systems with the generated positions visited cyclically over 2499 - 5001 (10 001) frames (one atom per frame): same clauses on runs longer than any internal block size',
        n={'quick': 2, 'thorough': 12}, shards={'quick': 4, 'thorough': 16}),
    Sub(name='huge-position-sets', kind='hyp', shrink=False, run=run, strategy=huge_shape_cases,
        rule='the trajectory / supercell-trajectory forms in space groups of order <= 4 with the generated positions visited cyclically over 262 143 - 270 001 (524 289) frames: same clauses on more than 2^18 positions in one analysis',
        n={'quick': 1, 'thorough': 4}, shards={'quick': 3, 'thorough': 8}),
    Sub(name='from-structure', kind='hyp', run=run_from_structure, strategy=structure_cases,
        rule='analyser built with ShapeAnalyzer.from_structure from a full structure (22 groups, general position) whose origin is shifted by a generated vector; expected points from the structure\'s own symmetry operations (SpacegroupAnalyzer, as data) and the brute-force minimum-image oracle',
        n={'quick': 12, 'thorough': 300}, shards={'quick': 8, 'thorough': 16}),
]
