"""C19  Time-partitioning for statistics conserves states and events."""
from __future__ import annotations

import collections

import numpy as np
from hypothesis import strategies as st

from .. import cases, oracle
from ..runner import Raised, Skip, Sub, Violation, gcall
from . import c03

PROPERTY = 'C19'
LEVEL = 'exploration'
RULE = ('cases are multi-atom site histories (real event table) over a frame-coded trajectory, a number of parts n in [1, min(#events, frames-1)] '
        'and a minimal residence; non-trivial = n >= 2 and an event at the first or last possible frame or within one frame of a part boundary')
ASSUMPTIONS = [
    'the statement does not require the parts to cover the last frame nor the event bins to coincide with the state chunks; neither is demanded',
    'parts are identified through frame-coded positions (every frame of the generated trajectory is distinct)',
    'Jumps.split may raise the documented ValueError("No jumps found") when a part contains no jump; that outcome is accepted',
]
ECOLS = c03.COLS
JCOLS = ['atom index', 'start site', 'destination site', 'start time', 'stop time']


def frame_coded(T, N, matrix=None, yshift=0.0):
    coords = np.zeros((T, N, 3))
    coords[:, :, 0] = ((np.arange(T) + 1) / (T + 2))[:, None]
    coords[:, :, 1] = (np.arange(N) / (N + 1))[None, :] + yshift
    coords[:, :, 2] = 0.5
    return cases.trajectory(coords, ['Li'] * N, matrix if matrix is not None else np.eye(3) * 10.0, 2e-15, 500.0)


def part_ranges(parts, T, what):
    """each part must be a contiguous frame range of the frame-coded source; returns [(a, len)]"""
    out = []
    prev_end = 0
    for k, p in enumerate(parts):
        pos = np.array(gcall(lambda: p.positions))
        L = len(pos)
        if L == 0:
            raise Violation(what + '-empty-part', f'part {k} has no frames')
        fr = np.rint(pos[:, 0, 0] * (T + 2) - 1).astype(int)
        if np.abs(pos[:, 0, 0] * (T + 2) - 1 - fr).max() > 1e-6:
            raise Violation(what + '-part-frames-altered', f'part {k}')
        if not np.array_equal(fr, np.arange(fr[0], fr[0] + L)):
            raise Violation(what + '-part-contiguous', f'part {k} holds source frames {fr.tolist()}')
        if fr[0] < prev_end:
            raise Violation(what + '-parts-non-overlapping-ordered', f'part {k} starts at source frame {fr[0]} but the previous part ended at {prev_end}; lengths {[len(q) for q in parts]} of {T} frames')
        # ... and stay that frame range after the part itself went through a representation switch
        gcall(lambda: p.displacements)
        pos2 = np.array(gcall(lambda: p.positions))
        if np.abs(((pos2 - pos + 0.5) % 1.0) - 0.5).max() > 1e-9:
            raise Violation(what + '-part-frames-altered', f'part {k} (source frames {fr[0]}..{fr[0] + L - 1}) changes its positions after a displacements/positions round trip')
        out.append((int(fr[0]), L))
        prev_end = fr[0] + L
    return out


def run(case):
    from gemdat.jumps import Jumps
    from gemdat.transitions import Transitions, _calculate_transition_events

    states = np.array(case['states'], dtype=int)
    inner = np.array(case['inner'], dtype=int)
    T, N = states.shape
    if not ((states[1:] != states[:-1]).any() or (inner[1:] != inner[:-1]).any()):
        raise Skip()
    events = gcall(_calculate_transition_events, atom_sites=states, atom_inner_sites=inner)
    n_sites = int(max(states.max(), 0)) + 1
    traj = frame_coded(T, N)
    # (the trajectory of the diffusing atoms is an object of its own: here a re-centred copy, its y coordinates moved by 1/8)
    tr = Transitions(trajectory=traj, diff_trajectory=frame_coded(T, N, yshift=0.125), sites=c03.dummy_sites(n_sites), events=events, states=states, inner_states=inner)
    n_max = min(len(events), T - 1)
    if n_max < 1:
        raise Skip()
    n_max = min(n_max, case.get('cap_parts', n_max))
    n = 1 + case['n_parts'] % n_max
    if case.get('prefer_multi') and n_max >= 2:
        n = 2 + case['n_parts'] % (n_max - 1)
    orig = sorted(tuple(int(x) for x in r) for r in events[ECOLS].to_numpy())
    orig_by_time = sorted(orig, key=lambda r: r[5])

    # ---- Transitions.split
    views_first = (int(np.abs(states).sum()) + T + n) % 2 == 0
    if views_first:
        gcall(tr.states_prev)  # the parent's own views are requested before it is split (whatever they remember stays with the parent)
        gcall(tr.states_next)
    parts = gcall(tr.split, n)
    if len(parts) != n:
        raise Violation('transitions-n-parts', f'{len(parts)} parts for n_parts={n}')
    cat = np.concatenate([p.states for p in parts], axis=0)
    cat_in = np.concatenate([p.inner_states for p in parts], axis=0)
    if cat.shape != states.shape or not np.array_equal(cat, states):
        raise Violation('states-concatenate-to-original', f'{cat.shape} vs {states.shape}')
    if cat_in.shape != inner.shape or not np.array_equal(cat_in, inner):
        raise Violation('inner-states-concatenate-to-original', '')
    total = sum(len(p.events) for p in parts)
    if total != len(orig):
        raise Violation('every-event-exactly-once', f'{len(orig)} events in the whole, {total} in the {n} parts ({[len(p.events) for p in parts]}); event times {[r[5] for r in orig_by_time]}, frames={T}')
    offsets = []
    pos = 0
    for k, p in enumerate(parts):
        rows = [tuple(int(x) for x in r) for r in p.events[ECOLS].to_numpy()]
        chunk = orig_by_time[pos : pos + len(rows)]
        pos += len(rows)
        if not rows:
            offsets.append(None)
            continue
        if min(r[5] for r in rows) < 0:
            raise Violation('rebased-time-non-negative', f'part {k}: re-based time {min(r[5] for r in rows)}')
        off = min(r[5] for r in chunk) - min(r[5] for r in rows)
        back = collections.Counter(r[:5] + (r[5] + off,) for r in rows)
        if back != collections.Counter(chunk):
            raise Violation('every-event-exactly-once', f'part {k}/{n}: events shifted back by {off} are {sorted(back)[:4]}, the chronological chunk of the original is {chunk[:4]}')
        if off < 0:
            raise Violation('rebased-time-non-negative', f'part {k}: offset {off}')
        offsets.append(off)
    known = [o for o in offsets if o is not None]
    if any(b <= a for a, b in zip(known, known[1:])):
        raise Violation('rebased-to-offset-inside-part', f'time offsets of consecutive non-empty parts are not increasing: {offsets} (times must be re-based to the start of their own part)')
    # re-based times lie inside the part's own time bin: below the next part's offset
    for k, p in enumerate(parts):
        nxt = next((o for o in offsets[k + 1 :] if o is not None), None)
        if offsets[k] is not None and nxt is not None and len(p.events) and int(p.events['time'].max()) + offsets[k] >= nxt and nxt != offsets[k]:
            raise Violation('parts-chronological', f'part {k} holds an event at original time {int(p.events["time"].max()) + offsets[k]} >= next offset {nxt}')
    # the parts' trajectories
    part_ranges([p.trajectory for p in parts], T, 'transitions-trajectory')
    dr = part_ranges([p.diff_trajectory for p in parts], T, 'transitions-diff-trajectory')
    for k, p in enumerate(parts):
        dp = np.array(gcall(lambda: p.diff_trajectory.positions))
        if dp.shape[1:] != (N, 3) or np.abs(dp[:, :, 1] - (np.arange(N) / (N + 1) + 0.125)[None, :]).max() > 1e-9:
            raise Violation('transitions-diff-trajectory-part-frames-altered', f'part {k}/{n}: the diffusing-atom trajectory of the part ({dp.shape[1]} atoms) is not a frame range of the source\'s diffusing-atom trajectory ({N} atoms, own coordinates)')
    # every part is a Transitions object of its own: its previous / next views describe its own frames
    for k, p in enumerate(parts):
        ps_ = np.asarray(p.states)
        for got_, want_, nm_ in ((gcall(p.states_prev), oracle.ffill_model(ps_), 'previous'), (gcall(p.states_next), oracle.bfill_model(ps_), 'next')):
            if np.shape(got_) != want_.shape or not np.array_equal(np.asarray(got_), want_):
                raise Violation('part-views-describe-the-part', f'part {k}/{n}: {nm_}-site view has shape {np.shape(got_)} for {ps_.shape[0]} frames' + ('' if np.shape(got_) != want_.shape else ' and differs from the forward/backward fill of the part\'s own states') + f' (parent views requested first: {views_first})')
    # splitting is a read-only query of the source: its own record is unchanged and a second split gives the same parts
    now = sorted(tuple(int(x) for x in r) for r in tr.events[ECOLS].to_numpy())
    if now != orig or not np.array_equal(np.asarray(tr.states), states) or not np.array_equal(np.asarray(tr.inner_states), inner):
        raise Violation('source-unchanged-by-split', f'events of the source after split({n}): {now[:4]} ... vs before {orig[:4]} ...')
    again = gcall(tr.split, n)
    if len(again) != len(parts) or any(not np.array_equal(a.states, b.states) or sorted(map(tuple, a.events[ECOLS].to_numpy().tolist())) != sorted(map(tuple, b.events[ECOLS].to_numpy().tolist())) for a, b in zip(again, parts)):
        raise Violation('second-split-gives-the-same-parts', f'split({n}) called twice on the same object: event counts {[len(p.events) for p in parts]} then {[len(p.events) for p in again]}')

    # ---- Trajectory.split
    for equal in (False, True):
        if case.get('touch'):
            gcall(traj.distances_from_base_position)  # leaves the source in the displacement representation
        tp = gcall(traj.split, n, equal_parts=equal)
        if len(tp) != n:
            raise Violation('trajectory-n-parts', f'{len(tp)} parts for n_parts={n}')
        rng = part_ranges(tp, T, 'trajectory')
        if equal and len({L for _, L in rng}) != 1:
            raise Violation('trajectory-equal-parts', f'lengths {[L for _, L in rng]}')

    # ---- Jumps.split / rates
    labels = []
    for res in case['residences']:
        whole = gcall(Jumps, tr, minimal_residence=res, allow=(ValueError,))
        if isinstance(whole, Raised):
            continue
        wrows = collections.Counter(tuple(int(x) for x in r) for r in whole.data[JCOLS].to_numpy())
        jp = gcall(whole.split, n, allow=(ValueError,))
        if isinstance(jp, Raised):
            if 'No jumps found' not in str(jp.exc):
                raise Violation('unexpected-exception', repr(jp.exc))
            labels.append('part-without-jumps')
            continue
        if len(jp) != n:
            raise Violation('jumps-n-parts', f'{len(jp)}')
        tot = 0
        for k, part in enumerate(jp):
            rows = collections.Counter(tuple(int(x) for x in r) for r in part.data[JCOLS].to_numpy())
            tot += sum(rows.values())
            off = offsets[k] if offsets[k] is not None else 0
            for r, c in rows.items():
                back = r[:3] + (r[3] + off, r[4] + off)
                if wrows.get(back, 0) < c:
                    raise Violation('part-jumps-subset-of-whole', f'minimal_residence={res}: part {k}/{n} reports jump {back} (shifted back by {off}) which the whole does not contain; whole has {sorted(wrows)[:5]}')
        for k, part in enumerate(jp):
            if part.minimal_residence != res:
                raise Violation('jumps-part-settings', f'part {k} analysed with minimal_residence={part.minimal_residence}, whole with {res}')
        if tot > whole.n_jumps:
            raise Violation('part-jump-counts-do-not-exceed-whole', f'minimal_residence={res}: parts sum to {tot}, whole has {whole.n_jumps}')
        labels.append('jumps-split')
        # rates: mean over parts of per-pair counts / (n_floating * part_time)
        rates = gcall(whole.rates, n, allow=(ValueError,))
        if not isinstance(rates, Raised):
            pt = T * 2e-15 / n
            tot_rate = float(rates['rates'].sum())
            if abs(tot_rate * N * pt * n - tot) > 1e-6 * max(1.0, tot):
                raise Violation('rates-consistent-with-parts', f'sum of rates x atoms x part time x n = {tot_rate * N * pt * n!r}, parts hold {tot} jumps')
    times = [r[5] for r in orig]
    bounds = {int(b) for b in np.linspace(0, T + 1, n + 1)} | {int(b) for b in np.linspace(0, T, n + 1)} | {int(b) for b in np.linspace(0, T - 1, n + 1)}
    near = any(abs(t - b) <= 1 for t in times for b in bounds if 0 < b < T)
    edge = 0 in times or (T - 2) in times
    if edge:
        labels.append('event-at-first-or-last-frame')
    if near:
        labels.append('event-near-part-boundary')
    labels.append(f'n={min(n, 4)}{"+" if n > 4 else ""}')
    return {'nontrivial': n >= 2 and (edge or near), 'labels': sorted(set(labels))}


@st.composite
def split_cases(draw, tier):
    c = draw(c03.histories(max_atoms=4, max_frames=60 if tier == 'quick' else 200, max_sites=5))
    mode = draw(st.sampled_from(['as-drawn', 'inner-equals-outer', 'never-inner']))
    if mode == 'inner-equals-outer':
        c['inner'] = c['states']
    elif mode == 'never-inner':  # every arrival is only a candidate jump, so the minimal residence decides
        c['inner'] = (np.array(c['states']) * 0 - 1).tolist()
    c['n_parts'] = draw(st.integers(0, 40))
    c['touch'] = draw(st.booleans())
    c['prefer_multi'] = draw(st.sampled_from([True, True, True, False]))
    c['residences'] = draw(st.sampled_from([[0], [0, 2], [0, 5], [1, 8]]))
    return c


@st.composite
def jump_split_cases(draw, tier):
    """histories tuned so that the minimal residence matters: arrivals are only candidates (never inner),
    short visits alternate with long ones, few parts so that every part holds jumps"""
    n_atoms = draw(st.integers(1, 3))
    n_sites = draw(st.integers(2, 4))
    T = draw(st.integers(30, 90 if tier == 'quick' else 200))
    res = draw(st.sampled_from([2, 3, 5, 8]))
    cols = []
    for _ in range(n_atoms):
        col, last = [], -1
        while len(col) < T:
            s = draw(st.integers(0, n_sites - 2))
            s = s + 1 if s >= last and last >= 0 else s
            last = s
            col.extend([s] * draw(st.sampled_from([1, 2, res - 1, res, res + 1, 3 * res])))
            col.extend([-1] * draw(st.sampled_from([0, 1, 1, 2])))
        cols.append(col[:T])
    states = np.array(cols).T
    return {'states': states.tolist(), 'inner': (states * 0 - 1).tolist(), 'n_parts': draw(st.integers(0, 2)), 'prefer_multi': draw(st.booleans()),
            'residences': [0, res], 'cap_parts': 3}


_E = c03.Enum(1, 2, {'quick': 5, 'thorough': 7})


def enum_size(tier):
    return _E.size(tier)


def enum_case(tier, idx):
    return dict(_E.case_at(tier, idx), all_parts=True, residences=[0, 2])


def run_enum(case):
    """one history, every n_parts from 1 to min(#events, frames-1)"""
    states = np.array(case['states'])
    inner = np.array(case['inner'])
    T = len(states)
    n_ev = int(np.sum((states[1:] != states[:-1]) | (inner[1:] != inner[:-1])))
    if n_ev == 0:
        raise Skip()
    count, nt = 0, 0
    for n in range(1, min(n_ev, T - 1) + 1):
        info = run(dict(case, n_parts=n - 1, prefer_multi=False, touch=(n % 2 == 0)))
        count += 1
        nt += bool(info['nontrivial'])
    return {'nontrivial': nt > 0, 'count': count, 'nontrivial_count': nt, 'labels': []}


SUBS = [
    Sub(name='splits', kind='hyp', run=run, strategy=split_cases,
        rule='1-4 atoms x 2-60 (200) frames x <=5 sites; n_parts in [1, min(#events, frames-1)]; Transitions.split, Trajectory.split (equal or not), Jumps.split and rates for minimal residences 0..8',
        n={'quick': 200, 'thorough': 3500}, shards={'quick': 10, 'thorough': 16}),
    Sub(name='jump-splits', kind='hyp', run=run, strategy=jump_split_cases,
        rule='1-3 atoms x 30-90 (200) frames, arrivals never inner, visits of length 1, 2, r-1, r, r+1, 3r for minimal residence r in {2,3,5,8}, 1-3 parts: part jumps must be jumps of the whole',
        n={'quick': 100, 'thorough': 2000}, shards={'quick': 6, 'thorough': 16}),
    Sub(name='enum-all-parts', kind='enum', run=run_enum, size=enum_size, case_at=enum_case, exhaustive=True,
        rule='complete enumeration: every one-atom (outer, inner) history over 2 sites of length 2..5 (quick) / 2..7 (thorough) x every n_parts from 1 to min(#events, frames-1) (each (history, n_parts) pair is one evaluation)',
        shards={'quick': 16, 'thorough': 16}),
]
