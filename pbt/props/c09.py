"""C09  Free energy is -kT ln(probability) and stays finite."""
from __future__ import annotations

import math

import numpy as np
from hypothesis import strategies as st

from .. import cases, gen, oracle
from ..runner import Sub, Violation, gcall

PROPERTY = 'C09'
LEVEL = 'exploration'
RULE = ('cases are non-negative density grids (1-6)^3 of dtype int64/int32/float64/float32 with many zeros and a dynamic range up to 1e12, '
        'a temperature in (1, 2000] K and optionally a second density assigned to the same Volume object; '
        'non-trivial = at least one empty voxel and at least two distinct non-zero densities')
ASSUMPTIONS = [
    'own Boltzmann constant k_B/e from CODATA 2018 exact SI values; rtol 1e-12 for float64 densities, 2e-6 for float32 densities',
    '"prohibitively large" = at least the default graph threshold 1e20',
]


def check_volume(vol, data, temp, where, graph_order=0):
    F = gcall(vol.get_free_energy, temperature=temp)
    Fd = np.array(F.data)  # a copy: building graphs is a read-only use of the free-energy volume
    data = np.asarray(data)
    if Fd.shape != data.shape:
        raise Violation('shape', f'{where}: {Fd.shape}')
    if not np.all(np.isfinite(Fd)):
        idx = tuple(int(i) for i in np.argwhere(~np.isfinite(Fd))[0])
        raise Violation('finite-everywhere', f'{where}: F{idx} = {Fd[idx]!r} for density {data[idx]!r} (dtype {data.dtype})')
    rt = {np.dtype('float32'): 2e-6, np.dtype('float16'): 4e-3}.get(data.dtype, 1e-12)
    d64 = data.astype(np.float64)
    visited = d64 > 0
    p = d64 / d64.sum()
    kT = oracle.K_B_EV * temp
    want = -kT * np.log(p[visited])
    got = Fd[visited].astype(np.float64)
    err = np.abs(got - want)
    tol = rt * np.maximum(np.abs(want), kT)
    if np.any(err > tol):
        i = int(np.argmax(err - tol))
        raise Violation('equals-minus-kT-ln-p', f'{where}: visited voxel with p={p[visited][i]!r}: F={got[i]!r}, -k_B T ln p = {want[i]!r} (T={temp}, dtype {data.dtype})')
    z = np.exp(-got / kT)
    # a relative error e in F/kT becomes a relative error e*|ln p| in exp(-F/kT)
    lim = 10 * rt * np.maximum(1.0, np.abs(np.log(p[visited]))) * p[visited]
    if np.any(np.abs(z - p[visited]) > lim):
        i = int(np.argmax(np.abs(z - p[visited]) - lim))
        raise Violation('exp-recovers-p', f'{where}: exp(-F/kT) = {z[i]!r} but p = {p[visited][i]!r}')
    if abs(z.sum() - 1) > {np.dtype('float32'): 1e-4, np.dtype('float16'): 5e-2}.get(data.dtype, 1e-9):
        raise Violation('boltzmann-weights-sum-to-one', f'{where}: sum exp(-F/kT) over visited voxels = {z.sum()!r}')
    # monotone: denser voxel never has a higher free energy
    order = np.argsort(d64[visited], kind='stable')
    ds, fs = d64[visited][order], got[order]
    for a in range(len(ds) - 1):
        if ds[a + 1] > ds[a] and fs[a + 1] > fs[a] * (1 + rt) + rt * kT:
            raise Violation('denser-is-lower', f'{where}: density {ds[a + 1]!r} > {ds[a]!r} but F {fs[a + 1]!r} > {fs[a]!r}')
    if (~visited).any():
        u = Fd[~visited]
        if u.min() < 1e20:
            raise Violation('unvisited-prohibitively-large', f'{where}: unvisited voxel has F = {u.min()!r}')
    # graphs
    thrs = [None, 1e7, float(np.median(got)) if got.size else 1.0]
    thrs = [thrs[i] for i in [(0, 1, 2), (1, 0, 2), (2, 1, 0), (2, 0, 1), (1, 2, 0), (0, 2, 1)][graph_order % 6]] + [None]  # (the default threshold once more at the end)
    for thr in thrs:
        kw = {} if thr is None else {'max_energy_threshold': thr}
        for diag in (True, False):
            G = gcall(F.free_energy_graph, diagonal=diag, **kw)
            lim = 1e20 if thr is None else thr
            want_nodes = {tuple(int(i) for i in idx) for idx in np.argwhere(visited) if 0 <= Fd[tuple(idx)] < lim}
            got_nodes = {tuple(int(i) for i in n) for n in G.nodes}
            if got_nodes != want_nodes:
                extra, miss = got_nodes - want_nodes, want_nodes - got_nodes
                kind = 'graph-excludes-unvisited' if any(not visited[n] for n in extra) else 'graph-nodes-below-threshold'
                raise Violation(kind, f'{where}: threshold {lim!r}: extra nodes {sorted(extra)[:3]}, missing {sorted(miss)[:3]}')
            for n in list(G.nodes)[:5]:
                if abs(G.nodes[n]['energy'] - Fd[n]) > 0:
                    raise Violation('graph-node-energy', f'{where}: node {n}')
            if not np.array_equal(np.asarray(F.data), Fd):
                raise Violation('free-energy-unchanged-by-graph', f'{where}: building the graph with threshold {lim!r} modified the free-energy volume')
    return F


def run(case):
    from gemdat.volume import Volume

    lat = cases.lattice(case['lattice'])
    dt = np.dtype(case['dtype'])
    data = np.array(case['data']).astype(dt)
    if case.get('scale') and dt == np.float64 and (data[data > 0].min() >= 1e-3 if (data > 0).any() else False):  # (already tiny values are not scaled further: they would underflow to zero)
        # densities in other units: the property is about ratios (probabilities), whatever the absolute scale
        data = (np.minimum(data, 1e3) if case['scale'] > 1 else data) * case['scale']
    temp = case['temperature']
    if case.get('from_trajectory'):
        c = case['from_trajectory']
        t = cases.trajectory(c['coords'], ['Li'] * len(c['coords'][0]), case['lattice']['matrix'])
        vol = gcall(t.to_volume, resolution=c['resolution'])
        data = np.asarray(vol.data).copy()
    else:
        d0 = data.copy()
        if case.get('layout') == 'F':
            d0 = np.asfortranarray(d0)
        elif case.get('layout') == 'T':
            d0 = np.ascontiguousarray(d0.transpose(2, 1, 0)).transpose(2, 1, 0)  # a transposed view: same values, other memory order
        vol = Volume(data=d0, lattice=lat)
    check_volume(vol, data, temp, 'first density', case.get('graph_order', 0))
    if not np.array_equal(np.asarray(vol.data), data):
        raise Violation('density-unchanged', 'get_free_energy modified the density')
    labels = [str(dt), 'layout-' + case.get('layout', 'C')] + (['scaled-density'] if case.get('scale') and dt == np.float64 else []) + (['negative-zero'] if dt == np.float64 and bool(np.any(np.signbit(data) & (data == 0))) else [])
    if case.get('second') is not None:
        d2 = np.array(case['second']).astype(dt)
        total = data.astype(np.float64) + d2.astype(np.float64)
        fits = dt.kind == 'f' or total.max() <= np.iinfo(dt).max  # in-place accumulation must not overflow the caller's own dtype
        if case['second_mode'] == 'assign' or not fits:
            vol.data = d2.copy()
        else:
            vol.data += d2
            d2 = data + d2
        check_volume(vol, d2, case.get('temperature2', temp), f'after updating the density of the same Volume ({case["second_mode"]})')
        labels.append('density-updated')
    nz = np.unique(data[data > 0])
    if nz.size and nz.max() / nz.min() > 1e8:
        labels.append('dynamic-range>1e8')
    return {'nontrivial': bool((data == 0).any() and nz.size >= 2), 'labels': labels}


@st.composite
def grids(draw, tier):
    shape = [draw(st.integers(1, 6)) for _ in range(3)]
    n = int(np.prod(shape))
    dtype = draw(st.sampled_from(['int64', 'int64', 'float64', 'float64', 'float32', 'float16', 'int32', 'uint16', 'int16', 'uint8']))
    if 'int' in dtype:
        top = {'int64': 2_000_000_000, 'int32': 100000, 'uint16': 60000, 'int16': 30000, 'uint8': 250}[dtype]
        val = st.one_of(st.just(0), st.just(0), st.integers(1, 50), st.integers(1, top), st.sampled_from([1, 1, 2, top]))
    else:
        val = st.one_of(st.just(0.0), st.just(0.0), st.floats(1e-3, 1e3), st.floats(1.0, 1e12), st.sampled_from([1.0, 0.5, 3.0]))
        if dtype == 'float64':
            # an empty voxel may be stored as -0.0 (e.g. after rounding); a probability may be subnormal (1e-300 beside 1e10)
            val = st.one_of(val, st.sampled_from([-0.0, -0.0, 1e-300, 1e10]))
        if dtype == 'float16':
            val = st.one_of(st.just(0.0), st.just(0.0), st.floats(0.5, 200.0), st.sampled_from([1.0, 0.5, 3.0]))

    def grid():
        v = draw(st.lists(val, min_size=n, max_size=n))
        if not any(x > 0 for x in v):
            v[draw(st.integers(0, n - 1))] = 1
        return np.array(v).reshape(shape).tolist()

    case = {'lattice': draw(gen.lattices()), 'dtype': dtype, 'layout': draw(st.sampled_from(['C', 'C', 'F', 'T'])), 'data': grid(), 'temperature': draw(st.one_of(st.floats(1.0001, 2000.0), st.sampled_from([1.5, 300.0, 2000.0])))}
    case['graph_order'] = draw(st.integers(0, 5))
    if dtype == 'float64' and draw(st.integers(0, 3)) == 0:
        case['scale'] = draw(st.sampled_from([2.0**-1040, 1e-300, 1e-30, 1e30, 1e300]))
    elif draw(st.booleans()):
        case['second'] = grid()
        case['second_mode'] = draw(st.sampled_from(['assign', 'accumulate']))
        case['temperature2'] = draw(st.sampled_from([case['temperature'], 77.0, 900.0]))
    if draw(st.integers(0, 5)) == 0:
        M = np.array(case['lattice']['matrix'])
        T, N = draw(st.integers(1, 6)), draw(st.integers(1, 3))
        case['from_trajectory'] = {'coords': [[[draw(st.floats(0, 1, exclude_max=True)) for _ in range(3)] for _ in range(N)] for _ in range(T)],
                                   'resolution': float(np.linalg.norm(M, axis=1).min() / draw(st.sampled_from([1.5, 2.5, 4.2])))}
        case.pop('second', None)
    return case


_SMALL_VALUES = [0, 1, 2, 7]


def small_size(tier):
    return len(_SMALL_VALUES) ** 4 * (2 if tier == 'quick' else 6)


def small_case(tier, idx):
    n = len(_SMALL_VALUES) ** 4
    variant, idx = idx // n, idx % n
    vals = []
    for _ in range(4):
        vals.append(_SMALL_VALUES[idx % len(_SMALL_VALUES)])
        idx //= len(_SMALL_VALUES)
    if not any(vals):
        vals[0] = 1
    shape = [(2, 2, 1), (1, 4, 1), (4, 1, 1), (1, 2, 2), (2, 1, 2), (1, 1, 4)][variant]
    lat = {'family': 'cubic', 'orient': 'lower', 'params': [5, 5, 5, 90, 90, 90], 'matrix': [[5.0, 0, 0], [0, 5.0, 0], [0, 0, 5.0]]}
    return {'lattice': lat, 'dtype': ['int64', 'float64'][variant % 2], 'layout': 'C', 'data': np.array(vals).reshape(shape).tolist(), 'temperature': [1.5, 300.0, 2000.0][variant % 3], 'graph_order': sum(vals) % 6}


SUBS = [
    Sub(name='free-energy', kind='hyp', run=run, strategy=grids,
        rule='density grids (1-6)^3, dtypes int64/int32/float64/float32, zeros, dynamic range to 1e12, T in (1,2000], second density assigned/accumulated on the same Volume; graphs at thresholds default/1e7/median with and without diagonal moves',
        n={'quick': 250, 'thorough': 6000}, shards={'quick': 12, 'thorough': 16}),
    Sub(name='enum-small-grids', kind='enum', run=run, size=small_size, case_at=small_case, exhaustive=True,
        rule='complete enumeration: every 4-voxel density over the counts {0, 1, 2, 7} in grid shapes (2,2,1), (1,4,1) (quick) + four more (thorough), alternating int64 / float64 and three temperatures',
        shards={'quick': 8, 'thorough': 16}),
]
