"""C06  Mean squared displacement and tracer diffusivity equal their definitions."""
from __future__ import annotations

import numpy as np
from hypothesis import strategies as st

from .. import cases, gen, oracle
from ..runner import Sub, Violation, gcall

PROPERTY = 'C06'
LEVEL = 'exploration'
RULE = ('cases are unwrapped fractional paths (|step| < 1/2 per component, optional constant drift so atoms cross many faces) handed '
        'over wrapped into the unit cell; non-trivial = non-orthogonal or rotated cell, >= 2 atoms and >= 1 face crossing')
ASSUMPTIONS = [
    'every per-frame step component is below 1/2 - 1e-6 of a cell edge, so the unwrapped path is uniquely defined by the wrapped input',
    'FFT round-off: MSD compared with atol 1e-9 * max|r|^2 + rtol 1e-9',
]


def run(case):
    path = np.array(case['path'], float)
    if case.get('tile', 1) > 1:
        st_ = np.diff(path, axis=0)
        path = np.concatenate([path[:1], path[:1] + np.cumsum(np.tile(st_, (case['tile'], 1, 1)), axis=0)], axis=0)
    T, N, _ = path.shape
    M = np.array(case['lattice']['matrix'], float)
    form = case.get('form', 'wrapped')
    if form == 'displacements':
        # the constructor's documented alternative input: per-frame displacements plus base positions
        steps = np.concatenate([np.zeros_like(path[:1]), np.diff(path, axis=0)], axis=0)
        t = cases.trajectory(steps, case['symbols'], M, case['time_step'], case['temperature'], case['species_kind'], coords_are_displacement=True, base_positions=path[0] - np.floor(path[0]))
    else:
        coords = path - np.floor(path) if form in ('wrapped', 'shifted') else path
        if form == 'shifted':
            # every coordinate handed over in another periodic image (an unwrapped first run followed by a wrapped restart, ...)
            t_i, a_i, x_i = np.indices(path.shape)
            coords = coords + ((3 * t_i + 5 * a_i + 7 * x_i + int(case.get('shift_seed', 0))) % 7 - 3)
        t = cases.derived_trajectory(coords, case['symbols'], M, case['time_step'], case['temperature'], case['species_kind'], derive=case.get('derive'))
    if case.get('touch_first'):
        gcall(lambda: t.displacements)  # start from the displacement representation
    # read-only queries issued before the quantities are compared (call-order dependence)
    for op in case.get('prelude', []):
        if op == 'positions':
            gcall(lambda: t.positions)
        elif op == 'displacements':
            gcall(lambda: t.displacements)
        elif op == 'cumulative':
            gcall(lambda: t.cumulative_displacements)
        elif op == 'center_of_mass':
            gcall(t.center_of_mass)
        elif op == 'haven':
            gcall(gcall(t.metrics).haven_ratio, allow=(ZeroDivisionError, FloatingPointError))
        elif op == 'com_diffusivity':
            gcall(gcall(t.metrics).tracer_diffusivity_center_of_mass)
        elif op == 'msd':
            gcall(t.mean_squared_displacement)
        elif op == 'distances':
            gcall(t.distances_from_base_position)
        elif op == 'filter':
            gcall(t.filter, case['symbols'][0])
        elif op == 'drift':
            gcall(t.drift)
    cart = (path - path[0][None]) @ M
    want = oracle.msd_direct(cart)
    got = np.array(gcall(t.mean_squared_displacement))
    if got.shape != want.shape:
        raise Violation('msd-shape', f'{got.shape} vs (atoms, lags)={want.shape}')
    # round-off scale: the largest squared displacement, but never below one squared cell edge
    # (an implementation working on absolute unwrapped positions is equally legitimate)
    scale = max(float(np.sum(cart * cart, axis=-1).max()), float(np.sum(M * M, axis=1).max()))
    err = np.abs(got - want)
    tol = 1e-9 * scale + 1e-9 * np.abs(want)
    if np.any(err > tol):
        i, tau = np.unravel_index(np.argmax(err - tol), err.shape)
        raise Violation('msd-equals-definition', f'atom {i} lag {tau}: reported {got[i, tau]!r}, time-origin average of |r(t+tau)-r(t)|^2 is {want[i, tau]!r} (frames={T}, cell={case["lattice"]["family"]}/{case["lattice"]["orient"]})')
    if np.abs(got[:, 0]).max() > 1e-9 * scale:
        raise Violation('msd-zero-at-lag-0', f'{got[:, 0].tolist()}')
    dist = np.array(gcall(t.distances_from_base_position))
    wd = np.linalg.norm(cart, axis=-1).T
    if dist.shape != wd.shape or np.abs(dist - wd).max() > 1e-9 * max(1.0, wd.max()):
        raise Violation('distance-equals-cartesian-length', f'max deviation {np.abs(dist - wd).max() if dist.shape == wd.shape else dist.shape}')
    mobj = gcall(t.metrics)  # one metrics object asked for every dimensionality in turn
    for dims in case.get('dims_order', (3, 1, 2)):
        d = float(gcall(mobj.tracer_diffusivity, dimensions=dims))
        wantd = float(np.mean(np.sum(cart[-1] ** 2, axis=-1)) * oracle.ANGSTROM**2 / (2 * dims * T * case['time_step']))
        if abs(d - wantd) > 1e-9 * abs(wantd) + 1e-9 * scale * oracle.ANGSTROM**2 / (2 * dims * T * case['time_step']):
            raise Violation('tracer-diffusivity-equals-definition', f'dimensions={dims}: reported {d!r}, mean_i |dr_i(final)|^2 / (2 d t) = {wantd!r} (atoms={N})')
    # the constructor's other input form with a real step in the first row (the starting point is base_positions): distances and the
    # tracer diffusivity are measured from the starting point
    if T >= 2 and N <= 8:
        stp = np.concatenate([path[1:2] - path[:1], np.diff(path, axis=0)], axis=0)
        td = cases.trajectory(stp, case['symbols'], M, case['time_step'], case['temperature'], case['species_kind'], coords_are_displacement=True, base_positions=path[0] - np.floor(path[0]))
        cart_d = np.cumsum(stp, axis=0) @ M
        dd = np.array(gcall(td.distances_from_base_position))
        wdd = np.linalg.norm(cart_d, axis=-1).T
        if dd.shape != wdd.shape or np.abs(dd - wdd).max() > 1e-9 * max(1.0, wdd.max()):
            raise Violation('distance-equals-cartesian-length', 'displacement input whose first row is a step')
        d3 = float(gcall(gcall(td.metrics).tracer_diffusivity, dimensions=3))
        w3 = float(np.mean(np.sum(cart_d[-1] ** 2, axis=-1)) * oracle.ANGSTROM**2 / (6 * T * case['time_step']))
        if abs(d3 - w3) > 1e-9 * abs(w3) + 1e-9 * scale * oracle.ANGSTROM**2 / (6 * T * case['time_step']):
            raise Violation('tracer-diffusivity-equals-definition', f'displacement input whose first row is a step: reported {d3!r}, mean_i |dr_i(final)|^2 / (6 t) from the starting point = {w3!r}')
    crossings = int(np.sum(np.floor(path[1:]) != np.floor(path[:-1])))
    fam, ori = case['lattice']['family'], case['lattice']['orient']
    skew = fam in ('hexagonal', 'rhombohedral', 'monoclinic', 'triclinic') or ori == 'rot'
    labels = [fam, 'orient-' + ori, f'atoms>=2' if N >= 2 else 'atoms=1', 'form-' + form]
    if crossings:
        labels.append('face-crossing')
    if crossings > 3 * N:
        labels.append('many-crossings')
    return {'nontrivial': skew and N >= 2 and crossings > 0, 'labels': labels}


@st.composite
def msd_cases(draw, tier):
    big = tier == 'thorough'
    c = draw(gen.path_cases(max_frames=64 if big else 24, max_atoms=8 if big else 4, max_step=0.25, specials=True))
    # constant drift per atom (|drift| <= 0.24 so that step + drift stays below 1/2)
    path = np.array(c['path'])
    T, N, _ = path.shape
    drift = np.array(draw(st.lists(st.sampled_from([0.0, 0.0, 0.05, -0.11, 0.2, -0.24]), min_size=3 * N, max_size=3 * N))).reshape(1, N, 3)
    c['path'] = (path + drift * np.arange(T).reshape(T, 1, 1)).tolist()
    c['form'] = draw(st.sampled_from(['wrapped', 'wrapped', 'unwrapped', 'displacements', 'shifted']))
    c['shift_seed'] = draw(st.integers(0, 6))
    c['touch_first'] = draw(st.booleans())
    c['dims_order'] = draw(st.permutations([1, 2, 3]))
    c['tile'] = draw(st.sampled_from([1, 1, 1, 1, 1, 40])) if T >= 12 else 1  # a long run: hundreds of cell crossings
    c['derive'] = draw(cases.derive_strategy())  # the trajectory as a frame range / species selection / joined pieces of other trajectories
    c['prelude'] = draw(st.lists(st.sampled_from(['positions', 'displacements', 'cumulative', 'center_of_mass', 'haven', 'com_diffusivity', 'msd', 'distances', 'filter', 'drift']), max_size=4))
    return c


SUBS = [
    Sub(name='msd', kind='hyp', run=run, strategy=msd_cases,
        rule='2-24 (64) frames x 1-4 (8) atoms in all lattices, per-atom constant drift; MSD vs O(T^2) direct definition on unwrapped Cartesian positions, distances, tracer diffusivity for 1-3 dimensions',
        n={'quick': 250, 'thorough': 3500}, shards={'quick': 8, 'thorough': 16}),
]


# ----------------------------------------------------------------------------- many atoms (atom-count dependent code paths)
def many_path(case):
    T, N = case['frames'], case['atoms']
    t_ = np.arange(T, dtype=float).reshape(T, 1, 1)
    a_ = np.arange(N, dtype=float).reshape(1, N, 1)
    x_ = np.arange(3, dtype=float).reshape(1, 1, 3)
    base = np.mod(0.618033988749895 * (a_ + 1) * (x_ + 1) + 0.1 * x_, 1.0)
    # every atom has its own drift and wobble; per-frame steps stay below 0.3 + 0.1 < 1/2 per component
    return base + t_ * 0.3 * np.sin(1.0 + 0.37 * a_ + 1.1 * x_ + case['phase']) + 0.05 * np.sin(0.9 * t_ * (1 + (a_ % 5)) + x_)


def run_many_big(case):
    """hundreds of atoms x thousands of frames: the MSD of every atom at ~40 lags vs the direct definition"""
    T, N = case['frames'], case['atoms']
    M = np.array(case['lattice']['matrix'], float)
    path = many_path(dict(case, phase=case['phase'])) * np.array([1.0, 1.0, 1.0])
    path = path[:1] + (path - path[:1]) * 0.2  # (slower: the atoms still cross faces hundreds of times)
    t = cases.trajectory(path - np.floor(path) if case['form'] != 'unwrapped' else path, ['Li'] * N, M, 1e-15, 300.0)
    got = np.array(gcall(t.mean_squared_displacement))
    if got.shape != (N, T):
        raise Violation('msd-shape', f'{got.shape} vs (atoms, lags)={(N, T)}')
    cart = (path - path[:1]) @ M
    scale = max(float(np.sum(cart * cart, axis=-1).max()), float(np.sum(M * M, axis=1).max()))
    lags = sorted({0, 1, 2, 3, 5, 17, T // 2, T // 3, T - 2, T - 1} | {2**k for k in range(2, 14) if 2**k < T} | {2**k + 1 for k in range(2, 14) if 2**k + 1 < T})
    for tau in lags:
        d = cart[tau:] - cart[: T - tau]
        want = np.mean(np.sum(d * d, axis=-1), axis=0)
        err = np.abs(got[:, tau] - want)
        if np.any(err > 1e-8 * scale + 1e-8 * np.abs(want)):
            i = int(np.argmax(err))
            raise Violation('msd-equals-definition', f'{N} atoms x {T} frames, atom {i} lag {tau}: reported {got[i, tau]!r}, time-origin average of |r(t+tau)-r(t)|^2 is {want[i]!r}')
    return {'nontrivial': True, 'labels': [case['lattice']['family'], 'coordinates>2^22' if T * N * 3 > 2**22 else 'coordinates<=2^22', 'form-' + case['form']]}


def run_many(case):
    if case['frames'] > 1000:
        return run_many_big(case)
    c = dict(case, path=many_path(case), symbols=(['Li'] * case['atoms'] if case['one_species'] else [['Li', 'Na', 'S'][i % 3] for i in range(case['atoms'])]),
             species_kind='Species', time_step=1e-15, temperature=300.0, dims_order=(3, 2, 1))
    info = run(c)
    N = case['atoms']
    info['labels'] = [x for x in info['labels'] if not x.startswith('atoms')] + [f'atoms>{256 * (N // 256)}' if N % 256 else 'atoms-multiple-of-256']
    info['nontrivial'] = True
    return info


@st.composite
def many_cases(draw, tier):
    big = draw(st.integers(0, 3)) == 0  # many atoms AND many frames: more than 2^22 coordinates in one call
    return {'lattice': draw(gen.lattices()), 'frames': draw(st.sampled_from([4097, 8192, 10000])) if big else draw(st.integers(2, 12 if tier == 'quick' else 40)),
            'atoms': draw(st.sampled_from([140, 180, 350])) if big else draw(st.sampled_from([255, 256, 257, 300, 511, 512, 513, 601, 1000, 1025] + ([2049, 4097] if tier == 'thorough' else []))),
            'phase': draw(st.sampled_from([0.0, 0.5, 2.0])), 'one_species': draw(st.booleans()), 'form': draw(st.sampled_from(['wrapped', 'unwrapped', 'displacements'])),
            'touch_first': draw(st.booleans()), 'prelude': draw(st.lists(st.sampled_from(['positions', 'displacements', 'msd', 'center_of_mass']), max_size=1))}


# ----------------------------------------------------------------------------- very long trajectories (sampled lags)
def run_long(case):
    """10^4 - 10^5 frames: the MSD at ~60 lags (first, last, powers of two, their neighbours and case-chosen ones) vs the direct definition"""
    T, N = case['frames'], case['atoms']
    M = np.array(case['lattice']['matrix'], float)
    t_ = np.arange(T, dtype=float).reshape(T, 1, 1)
    a_ = np.arange(1, N + 1, dtype=float).reshape(1, N, 1)
    v = np.array(case['velocity'], float).reshape(1, 1, 3)
    amp = np.array(case['amplitude'], float).reshape(1, 1, 3)
    # drift + oscillation + one hop: a pure function of the case; per component |step| <= 0.19 + 2 * 0.05 + 0.15 < 1/2
    path = np.array(case['x0'], float).reshape(1, N, 3) + t_ * v * a_ / N + amp * np.sin(t_ * a_ * case['omega']) + (t_ >= case['hop_at']) * 0.15
    coords = path - np.floor(path)
    t = cases.trajectory(coords if case['form'] == 'wrapped' else path, ['Li'] * N, M, 2e-15, 300.0)
    got = np.array(gcall(t.mean_squared_displacement))
    if got.shape != (N, T):
        raise Violation('msd-shape', f'{got.shape} vs (atoms, lags)={(N, T)}')
    cart = (path - path[:1]) @ M
    lags = {0, 1, 2, 3, T - 1, T - 2, T // 2, T // 2 + 1, T // 3}
    k = 1
    while k < T:
        lags |= {k - 1, k, k + 1}
        k *= 2
    lags |= {int(x) % T for x in case['lags']}
    scale = max(float(np.sum(cart * cart, axis=-1).max()), float(np.sum(M * M, axis=1).max()))
    for tau in sorted(x for x in lags if 0 <= x < T):
        d = cart[tau:] - cart[:T - tau]
        want = np.mean(np.sum(d * d, axis=-1), axis=0)
        err = np.abs(got[:, tau] - want)
        if np.any(err > 1e-8 * scale + 1e-8 * np.abs(want)):
            i = int(np.argmax(err))
            raise Violation('msd-equals-definition', f'{T} frames, atom {i} lag {tau}: reported {got[i, tau]!r}, time-origin average of |r(t+tau)-r(t)|^2 is {want[i]!r} (cell={case["lattice"]["family"]})')
    dist = np.array(gcall(t.distances_from_base_position))
    wd = np.linalg.norm(cart, axis=-1).T
    if dist.shape != wd.shape or np.abs(dist - wd).max() > 1e-8 * max(1.0, wd.max()):
        raise Violation('distance-equals-cartesian-length', f'{T} frames: max deviation {np.abs(dist - wd).max() if dist.shape == wd.shape else dist.shape}')
    d3 = float(gcall(gcall(t.metrics).tracer_diffusivity, dimensions=3))
    w3 = float(np.mean(np.sum(cart[-1] ** 2, axis=-1)) * oracle.ANGSTROM**2 / (6 * T * 2e-15))
    if abs(d3 - w3) > 1e-8 * abs(w3) + 1e-8 * scale * oracle.ANGSTROM**2 / (6 * T * 2e-15):
        raise Violation('tracer-diffusivity-equals-definition', f'{T} frames: reported {d3!r} vs {w3!r}')
    return {'nontrivial': True, 'labels': [case['lattice']['family'], f'frames>={10 ** int(np.log10(T))}', 'frames>65535' if T > 65535 else 'frames<=65535', 'form-' + case['form']]}


@st.composite
def long_cases(draw, tier):
    big = tier == 'thorough'
    T = draw(st.sampled_from([70001, 33000, 12000, 131072] + ([262145, 500000] if big else [])))
    N = draw(st.sampled_from([2, 1, 3]))
    return {'lattice': draw(gen.lattices()), 'frames': T, 'atoms': N,
            'x0': [[draw(st.sampled_from([0.0, 0.5, 0.97, 0.25])) for _ in range(3)] for _ in range(N)],
            'velocity': [draw(st.sampled_from([0.11, -0.07, 0.0, 0.0003, -0.19])) for _ in range(3)],
            'amplitude': [draw(st.sampled_from([0.05, 0.0, 0.02])) for _ in range(3)],
            'omega': draw(st.sampled_from([0.7, 0.013, 2.9])), 'hop_at': draw(st.integers(1, T - 1)),
            'lags': draw(st.lists(st.integers(0, 10**6), min_size=10, max_size=30)), 'form': draw(st.sampled_from(['wrapped', 'unwrapped']))}


# ----------------------------------------------------------------------------- every frame count
PATTERNS = ['ballistic', 'zigzag', 'single-hop', 'late-hop', 'stationary-then-run']


class EnumFrames:
    """Every trajectory length T in 2..Tmax (all FFT padding regimes: powers of two, one below/above) x 5 deterministic motion patterns."""

    def __init__(self, tmax):
        self.tmax = tmax

    def size(self, tier):
        return (self.tmax[tier] - 1) * len(PATTERNS)

    def case_at(self, tier, idx):
        T = 2 + idx // len(PATTERNS)
        pat = PATTERNS[idx % len(PATTERNS)]
        t = np.arange(T, dtype=float).reshape(T, 1, 1)
        v = np.array([[[0.21, -0.13, 0.07], [-0.05, 0.24, 0.19]]])
        if pat == 'ballistic':
            path = t * v
        elif pat == 'zigzag':
            path = (t % 2) * v * 1.5 + t * v * 0.1
        elif pat == 'single-hop':
            path = (t >= 1) * v * 1.9
        elif pat == 'late-hop':
            path = (t >= T - 1) * v * 1.9
        else:
            path = np.maximum(t - T // 2, 0) * v
        path = path + np.array([[[0.97, 0.02, 0.5], [0.0, 0.999, 0.25]]])
        lat = gen.fixed_lattice(['triclinic', 'cubic', 'hexagonal', 'monoclinic'][T % 4], ['lower', 'rot', 'pmg'][T % 3])
        return {'path': path.tolist(), 'lattice': lat, 'symbols': ['Li', 'Li'], 'time_step': 2e-15, 'temperature': 300.0,
                'species_kind': 'Species', 'form': ['wrapped', 'unwrapped', 'displacements'][(T // 4) % 3], 'dims_order': [3, 1, 2], 'pattern': pat}


EF = EnumFrames({'quick': 260, 'thorough': 1100})


def run_frames(case):
    info = run(case)
    info['labels'] = info['labels'] + ['pattern-' + case['pattern']]
    T = len(case['path'])
    if T & (T - 1) == 0:
        info['labels'].append('frames-power-of-two')
    info['nontrivial'] = True
    return info


SUBS.append(
    Sub(name='enum-frame-counts', kind='enum', run=run_frames, size=EF.size, case_at=EF.case_at, exhaustive=True,
        rule='complete enumeration: every trajectory length 2..260 (quick) / 2..1100 (thorough) frames x 5 deterministic motion patterns (ballistic, zigzag, single hop at the first / last step, rest-then-run) of two atoms that cross cell faces, cell family/orientation/input form cycled with the length; MSD at every lag vs the direct definition, distances, tracer diffusivity',
        shards={'quick': 16, 'thorough': 16}))
SUBS.append(
    Sub(name='many-atoms', kind='hyp', shrink=False, run=run_many, strategy=many_cases,
        rule='255 - 1025 (4097) atoms (around multiples of 256 and 512) x 2-12 (40) frames, or 140 - 350 atoms x 4097 - 10 000 frames (up to 10^7 coordinates in one call, sampled lags), in all lattices, every atom with its own drift and wobble, one or three species, three input forms: MSD of every atom at every lag vs the direct definition, distances, tracer diffusivity (atom-count dependent code paths)',
        n={'quick': 4, 'thorough': 30}, shards={'quick': 6, 'thorough': 16}))
SUBS.append(
    Sub(name='long-trajectories', kind='hyp', shrink=False, run=run_long, strategy=long_cases,
        rule='12 000 - 131 072 (500 000) frames x 1-3 atoms in all lattices (drift + oscillation + one late hop, many face crossings): MSD at ~60 lags (0, 1, 2, 3, T-2, T-1, T/2, T/3, every power of two and its neighbours, 10-30 generated lags) vs the direct definition, distances and tracer diffusivity (size-dependent code paths, FFT padding, accumulated round-off)',
        n={'quick': 2, 'thorough': 6}, shards={'quick': 6, 'thorough': 16}))
