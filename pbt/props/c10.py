"""C10  Optimal and percolating paths are valid, correctly reported and cost-minimal."""
from __future__ import annotations

import itertools
import math

import numpy as np
from hypothesis import strategies as st

from .. import cases, gen, oracle
from ..runner import Raised, Skip, Sub, Violation, gcall

PROPERTY = 'C10'
LEVEL = 'exploration'
RULE = ('cases are free-energy grids with sides 1-5 (unequal allowed), energies in [0,5] and blocked voxels, a start/stop pair among admissible voxels, one of the '
        'five methods and a neighbourhood mode; percolation cases add 1-4 admissible peaks and a non-empty subset of "xyz"; non-trivial = a returned path of >= 3 '
        'nodes in a grid with a blocked voxel or with a wrap-around step (optimal) / a percolating path in a grid with unequal sides (percolation)')
ASSUMPTIONS = [
    'only costs are compared (ties between equally cheap paths are legal), with absolute tolerance 1e-9',
    'start, stop and peaks are admissible voxels (an inadmissible endpoint raises NodeNotFound, which no clause covers)',
    'own breadth-first / Dijkstra / minimax searches on a dict graph built straight from the array: 6 or 26 periodic neighbours',
]
def _exp(x):
    return math.exp(x) if x < 700 else math.inf


METHODS = ['dijkstra', 'bellman-ford', 'minmax-energy', 'dijkstra-exp', 'simple']
THR = 1e7


def path_checks(sites, energy, F, adj, start, stop, moves, where):
    shape = F.shape
    sites = [tuple(int(v) for v in s) for s in sites]
    if not sites or sites[0] != tuple(start) or sites[-1] != tuple(stop):
        raise Violation(where + '-endpoints', f'path {sites[:1]}..{sites[-1:]} for start {start} stop {stop}')
    for s in sites:
        if s not in adj:
            raise Violation(where + '-node-admissible', f'path visits {s} with energy {F[s] if all(0 <= s[i] < shape[i] for i in range(3)) else None!r}')
    for a, b in zip(sites, sites[1:]):
        diff = tuple(((b[i] - a[i] + 1) % shape[i]) - 1 if shape[i] > 2 else (b[i] - a[i]) % shape[i] for i in range(3))
        if b not in adj[a]:
            raise Violation(where + '-step-is-neighbour', f'step {a} -> {b} in grid {shape} (difference {diff}) is not an allowed move')
    if len(energy) != len(sites) or any(abs(float(e) - float(F[s])) > 0 for e, s in zip(energy, sites)):
        raise Violation(where + '-energy-per-step', f'{[float(e) for e in energy]} vs {[float(F[s]) for s in sites]}')
    return sites


def path_cost(sites, F, method, thr):
    w = [0.5 * (F[a] + F[b]) for a, b in zip(sites, sites[1:])]
    if method in ('dijkstra', 'bellman-ford'):
        return float(sum(w))
    if method == 'dijkstra-exp':
        return float(sum(min(_exp(x), thr) for x in w))
    if method == 'simple':
        return float(len(sites) - 1)
    return float(max(F[s] for s in sites))


def best_cost(adj, F, start, stop, method, thr):
    if method in ('dijkstra', 'bellman-ford'):
        return oracle.dijkstra(adj, start, stop, lambda u, v: 0.5 * (F[u] + F[v]))
    if method == 'dijkstra-exp':
        return oracle.dijkstra(adj, start, stop, lambda u, v: min(_exp(0.5 * (F[u] + F[v])), thr))
    if method == 'simple':
        h = oracle.bfs_hops(adj, start, stop)
        return None if h is None else float(h)
    return oracle.minimax(adj, start, stop, F)


def laid_out(F, layout):
    """the same grid values in another memory layout (C order, Fortran order as pymatgen's volumetric readers produce, a transposed view)"""
    if layout == 'F':
        return np.asfortranarray(F)
    if layout == 'T':
        return np.ascontiguousarray(F.transpose(2, 1, 0)).transpose(2, 1, 0)
    return F.copy()


def run_optimal(case):
    import networkx as nx
    from gemdat.volume import FreeEnergyVolume

    F = np.array(case['F'], float)
    shape = F.shape
    thr, diag, method = case['threshold'], case['diagonal'], case['method']
    vol = FreeEnergyVolume(data=laid_out(F, case.get('layout')), lattice=cases.lattice(case['lattice']))
    adj = oracle.grid_graph(F, thr, diagonal=diag)
    adm = sorted(adj)
    if not adm:
        raise Skip()
    start, stop = adm[case['start'] % len(adm)], adm[case['stop'] % len(adm)]
    if case.get('default_graph'):
        thr, diag = THR, True
        adj = oracle.grid_graph(F, thr, diagonal=True)
        if start not in adj or stop not in adj:
            raise Skip()
        res = gcall(vol.optimal_path, start=start, stop=stop, method=method, allow=(nx.NetworkXNoPath,))
    else:
        if case.get('other_graph_first'):
            gcall(vol.free_energy_graph, max_energy_threshold=thr, diagonal=not diag)  # an earlier request on the same volume
            gcall(vol.optimal_path, start=start, stop=stop, method='dijkstra', allow=(nx.NetworkXNoPath, nx.NodeNotFound))
        G = gcall(vol.free_energy_graph, max_energy_threshold=thr, diagonal=diag)
        if set(map(tuple, G.nodes)) != set(adj):
            raise Violation('graph-nodes', 'node set differs from the admissible voxels')
        n_edges = G.number_of_edges()
        for pm, ps, pe in case.get('pre_queries', []):  # earlier queries on the same graph object must not disturb later ones
            gcall(vol.optimal_path, F_graph=G, start=adm[ps % len(adm)], stop=adm[pe % len(adm)], method=pm, allow=(nx.NetworkXNoPath,))
        if set(map(tuple, G.nodes)) != set(adj) or G.number_of_edges() != n_edges:
            raise Violation('graph-unchanged-by-queries', f'graph had {len(adj)} nodes / {n_edges} edges, after {case.get("pre_queries")} it has {G.number_of_nodes()} / {G.number_of_edges()}')
        res = gcall(vol.optimal_path, F_graph=G, start=start, stop=stop, method=method, allow=(nx.NetworkXNoPath,))
    best = best_cost(adj, F, start, stop, method, thr)
    labels = [method, 'diagonal' if diag else 'faces-only'] + (['layout-' + case['layout']] if case.get('layout', 'C') != 'C' else [])
    if isinstance(res, Raised):
        if best is not None:
            raise Violation('no-path-only-when-disconnected', f'NetworkXNoPath but an admissible path of cost {best} exists from {start} to {stop}')
        return {'nontrivial': False, 'labels': labels + ['disconnected']}
    if best is None:
        raise Violation('path-through-inadmissible-region', f'a path was returned although {start} and {stop} are not connected through admissible voxels')
    sites = path_checks(res.sites, res.energy, F, adj, start, stop, None, 'optimal')
    cost = path_cost(sites, F, method, thr)
    if cost > best + 1e-9 * max(1.0, abs(best)):
        raise Violation('cost-minimal-' + method, f'returned path {sites} has cost {cost!r} under {method!r}; an admissible path of cost {best!r} exists (grid {shape}, diagonal={diag}, threshold={thr})')
    if abs(float(res.total_energy) - sum(float(F[s]) for s in sites)) > 1e-9 * max(1.0, sum(float(F[s]) for s in sites)):
        raise Violation('total-energy', '')
    if res.dims is not None and tuple(res.dims) != tuple(shape):
        raise Violation('path-dims', f'{res.dims}')
    if res.dims is not None:
        check_wrapped(res, sites, shape)
        check_total_length(res, sites, shape, np.array(case['lattice']['matrix'], float))
    blocked = bool((F >= thr).any() or (F < 0).any())
    wrap = any(any(abs(b[i] - a[i]) > 1 for i in range(3)) for a, b in zip(sites, sites[1:]))
    if blocked:
        labels.append('blocked-voxels')
    if wrap:
        labels.append('wrap-around-step')
    if len(set(shape)) > 1:
        labels.append('unequal-dims')
    return {'nontrivial': len(sites) >= 3 and (blocked or wrap), 'labels': labels}


def check_wrapped(path, sites, dims):
    w = gcall(path.wrapped_sites)
    want = [tuple(s[i] % dims[i] for i in range(3)) for s in sites]
    got = [tuple(int(v) for v in s) for s in w]
    if got != want:
        k = next(i for i in range(len(want)) if got[i] != want[i])
        raise Violation('wrapped-sites-inside-grid', f'site {sites[k]} wraps to {got[k]} in grid {tuple(dims)}, expected {want[k]}')
    f = np.asarray(gcall(path.frac_sites), float)
    wf = (np.array(want) + 0.5) / np.array(dims)
    if f.shape != wf.shape or np.abs(f - wf).max() > 1e-12 or f.min() < 0 or f.max() >= 1:
        raise Violation('frac-sites-inside-cell', f'{f.tolist()} vs {wf.tolist()}')


def run_percolate(case):
    from gemdat.volume import FreeEnergyVolume

    F = np.array(case['F'], float)
    dims = F.shape
    vol = FreeEnergyVolume(data=laid_out(F, case.get('layout')), lattice=cases.lattice(case['lattice']))
    perc = case['percolate']
    pxyz = [c in perc for c in 'xyz']
    adm = [idx for idx in np.ndindex(*dims) if 0 <= F[idx] < THR]
    if not adm:
        raise Skip()
    peaks = [adm[k % len(adm)] for k in case['peaks']]
    res = gcall(vol.optimal_percolating_path, peaks=np.array(peaks), percolate=perc)
    # independent tiling + graph
    tiled = F
    for ax in range(3):
        if pxyz[ax]:
            tiled = np.concatenate([tiled, tiled], axis=ax)
    adj = oracle.grid_graph(tiled, THR, diagonal=True)
    image = tuple(dims[i] if pxyz[i] else 0 for i in range(3))
    totals = []
    for p in peaks:
        q = tuple(p[i] + image[i] for i in range(3))
        c = oracle.dijkstra(adj, tuple(p), q, lambda u, v: 0.5 * (tiled[u] + tiled[v]))
        totals.append(None if c is None else c + float(F[tuple(p)]))
    best = min((t for t in totals if t is not None), default=None)
    labels = ['percolate-' + perc]
    if res is None:
        if best is not None:
            raise Violation('none-only-when-no-peak-percolates', f'None returned but peak {peaks[[t is not None for t in totals].index(True)]} percolates along {perc!r} at total energy {best!r}')
        return {'nontrivial': False, 'labels': labels + ['no-percolation']}
    if best is None:
        raise Violation('percolating-path-through-inadmissible-region', 'a path was returned although no peak percolates')
    sites = [tuple(int(v) for v in s) for s in res.sites]
    if tuple(sites[0]) not in [tuple(p) for p in peaks]:
        raise Violation('percolating-starts-at-peak', f'{sites[0]} not in {peaks}')
    stop = tuple(sites[0][i] + image[i] for i in range(3))
    path_checks(res.sites, res.energy, tiled, adj, sites[0], stop, None, 'percolating')
    tot = float(res.total_energy)
    if abs(tot - sum(float(tiled[s]) for s in sites)) > 1e-9 * max(1.0, abs(tot)):
        raise Violation('total-energy', '')
    if tot > best + 1e-9 * max(1.0, abs(best)):
        raise Violation('percolating-cheapest-over-peaks', f'returned path from {sites[0]} has total energy {tot!r}; peak totals {totals}')
    if res.dims is None or tuple(res.dims) != tuple(dims):
        raise Violation('path-dims', f'{res.dims} vs {dims}')
    check_wrapped(res, sites, dims)
    check_total_length(res, sites, dims, np.array(case['lattice']['matrix'], float))
    if len(set(dims)) > 1:
        labels.append('unequal-dims')
    if sum(t is not None for t in totals) < len(totals):
        labels.append('some-peak-cannot-percolate')
    return {'nontrivial': len(set(dims)) > 1, 'labels': labels}


def check_total_length(path, sites, dims, M):
    """Pathway.total_length = sum of the minimum-image distances between the centres of consecutive (wrapped) voxels"""
    from pymatgen.core import Lattice

    wf = (np.array([[s[i] % dims[i] for i in range(3)] for s in sites]) + 0.5) / np.array(dims)
    if any(np.array_equal(a, b) for a, b in zip(wf, wf[1:])):
        return False  # two consecutive sites wrap to the same voxel (grid side 1): the reported length is not defined there
    want = sum(float(oracle.min_image_dist(a[None], b[None], M)[0, 0]) for a, b in zip(wf, wf[1:]))
    got = float(gcall(path.total_length, Lattice(M)))
    if abs(got - want) > 1e-9 * max(1.0, want):
        raise Violation('total-length-is-sum-of-step-lengths', f'total_length {got!r} vs {want!r} for sites {sites} in grid {tuple(dims)}')
    return True


def run_npaths(case):
    """optimal_n_paths: every returned path is a valid path between the requested voxels, the first one is cost-minimal"""
    import networkx as nx
    from gemdat import path as gpath
    from gemdat.volume import FreeEnergyVolume

    F = np.array(case['F'], float)
    shape = F.shape
    M = np.array(case['lattice']['matrix'], float)
    thr, diag, method, route = case['threshold'], case['diagonal'], case['method'], case['route']
    if route == 'vol-default':
        thr, diag = THR, True
    vol = FreeEnergyVolume(data=laid_out(F, case.get('layout')), lattice=cases.lattice(case['lattice']))
    adj = oracle.grid_graph(F, thr, diagonal=diag)
    adm = sorted(adj)
    if not adm or len(adm) > 7:
        raise Skip()  # the number of simple paths (which the library may enumerate completely) is kept small
    start, stop = adm[case['start'] % len(adm)], adm[case['stop'] % len(adm)]
    kw = dict(start=start, stop=stop, method=method, n_paths=case['n_paths'], min_diff=case['min_diff'])
    if case.get('defaults'):
        kw.pop('n_paths'), kw.pop('min_diff')
    n_max = kw.get('n_paths', 3)
    allow = (nx.NetworkXNoPath,)
    if route == 'vol-default':
        res = gcall(vol.optimal_n_paths, allow=allow, **kw)
    elif route == 'vol-graph':
        G = gcall(vol.free_energy_graph, max_energy_threshold=thr, diagonal=diag)
        res = gcall(vol.optimal_n_paths, F_graph=G, allow=allow, **kw)
    else:
        G = gcall(gpath.free_energy_graph, vol if route == 'function-volume' else laid_out(F, case.get('layout')), max_energy_threshold=thr, diagonal=diag)
        if set(map(tuple, G.nodes)) != set(adj):
            raise Violation('graph-nodes', 'node set differs from the admissible voxels')
        one = gcall(gpath.optimal_path, G, start=start, stop=stop, method=method, allow=allow)
        res = gcall(gpath.optimal_n_paths, G, allow=allow, **kw)
        if isinstance(one, Raised) != isinstance(res, Raised):
            raise Violation('n-paths-agree-with-optimal-path', f'optimal_path {one!r} but optimal_n_paths {res!r}')
    best = best_cost(adj, F, start, stop, method, thr)
    labels = [method, route, 'diagonal' if diag else 'faces-only']
    if isinstance(res, Raised):
        if best is not None:
            raise Violation('no-path-only-when-disconnected', f'NetworkXNoPath but an admissible path of cost {best} exists from {start} to {stop}')
        return {'nontrivial': False, 'labels': labels + ['disconnected']}
    if best is None:
        raise Violation('path-through-inadmissible-region', f'paths were returned although {start} and {stop} are not connected through admissible voxels')
    if not isinstance(res, list) or len(res) < 1:
        raise Violation('n-paths-count', f'{res!r} returned for n_paths={n_max}')  # (how many paths come back is not part of the property: n_paths=1 yields two on the pinned tree)
    for k, p in enumerate(res):
        sites = path_checks(p.sites, p.energy, F, adj, start, stop, None, f'n-paths[{k}]')
        if abs(float(p.total_energy) - sum(float(F[s]) for s in sites)) > 1e-9 * max(1.0, sum(float(F[s]) for s in sites)):
            raise Violation('total-energy', '')
        if k == 0:
            cost = path_cost(sites, F, method, thr)
            if cost > best + 1e-9 * max(1.0, abs(best)):
                raise Violation('cost-minimal-' + method, f'first of the n paths {sites} has cost {cost!r} under {method!r}; an admissible path of cost {best!r} exists (grid {shape}, diagonal={diag}, threshold={thr})')
        if route.startswith('vol'):
            if p.dims is None or tuple(p.dims) != tuple(shape):
                raise Violation('path-dims', f'path {k}: {p.dims}')
            check_wrapped(p, sites, shape)
            if check_total_length(p, sites, shape, M):
                labels.append('total-length')
    if len(res) > 1:
        labels.append('several-paths')
    blocked = bool((F >= thr).any())
    return {'nontrivial': len(res) > 1 and blocked, 'labels': sorted(set(labels))}


@st.composite
def npaths_cases(draw, tier):
    if draw(st.integers(0, 2)) == 0:
        # a periodic ring of 4-7 voxels: exactly two routes, a short one over a barrier and a longer flat one, so the criteria disagree
        c = draw(two_route_cases(tier).filter(lambda c: int(np.prod(np.shape(c['F']))) <= 7))
        shape, F = list(np.shape(c['F'])), np.array(c['F'], float).ravel()
        return {'lattice': c['lattice'], 'F': c['F'], 'threshold': 1e7, 'diagonal': c['diagonal'], 'method': draw(st.sampled_from(METHODS + ['minmax-energy'])), 'start': c['start'], 'stop': c['stop'],
                'n_paths': draw(st.integers(1, 3)), 'min_diff': draw(st.sampled_from([0.0, 0.15, 0.5])), 'defaults': draw(st.booleans()),
                'route': draw(st.sampled_from(['vol-default', 'vol-graph', 'function-array', 'function-volume']))}
    shape = [draw(st.integers(1, 4)) for _ in range(3)]
    n = int(np.prod(shape))
    F = np.full(n, 1e8)
    k = draw(st.integers(1, min(7, n)))
    where = draw(st.lists(st.integers(0, n - 1), min_size=k, max_size=k, unique=True))
    for w in where:
        F[w] = draw(st.sampled_from([0.0, 0.5, 1.0, 1.0, 2.5, 3.5, 4.9]))
    return {'lattice': draw(gen.lattices(families=['cubic', 'orthorhombic', 'triclinic'], orients=['lower'])), 'F': F.reshape(shape).tolist(),
            'threshold': draw(st.sampled_from([1e7, 1e7, 3.0])), 'diagonal': draw(st.sampled_from([True, True, False])),
            'method': draw(st.sampled_from(METHODS)), 'start': draw(st.integers(0, 6)), 'stop': draw(st.integers(0, 6)),
            'n_paths': draw(st.integers(1, 4)), 'min_diff': draw(st.sampled_from([0.0, 0.15, 0.15, 0.34, 0.5, 0.9])), 'defaults': draw(st.sampled_from([False, False, True])), 'layout': draw(st.sampled_from(['C', 'C', 'F', 'T'])),
            'route': draw(st.sampled_from(['vol-default', 'vol-graph', 'function-array', 'function-volume']))}


@st.composite
def grids(draw, max_side=5):
    shape = [draw(st.integers(1, max_side)) for _ in range(3)]
    n = int(np.prod(shape))
    val = st.one_of(st.floats(0, 5), st.floats(0, 5), st.floats(0, 0.5), st.sampled_from([0.0, 1.0, 1.0, 2.5, 5.0]), st.sampled_from([1e8, 1.7976931348623157e308, 2e7]))
    v = draw(st.lists(val, min_size=n, max_size=n))
    if all(x >= THR for x in v):
        v[0] = 1.0
    # energies in other units: admissible voxels may carry energies just below the 1e7 cut-off (path totals then exceed it)
    sc = draw(st.sampled_from([1.0, 1.0, 1.0, 1e3, 1.9e6]))
    v = [x * sc if x < THR and x * sc < THR else x for x in v]
    return np.array(v).reshape(shape).tolist()


@st.composite
def ring_grids(draw):
    """a periodic ring (or a thin slab): exactly two routes between two voxels, so that the criteria
    (sum of energies / sum of exponentials / number of hops / highest energy) disagree often"""
    n = draw(st.integers(4, 9))
    ax = draw(st.integers(0, 2))
    shape = [1, 1, 1]
    shape[ax] = n
    if draw(st.booleans()):
        shape[(ax + 1) % 3] = 2
    m = int(np.prod(shape))
    v = draw(st.lists(st.sampled_from([0.0, 0.5, 1.0, 2.5, 2.5, 4.0, 4.9, 1e8]), min_size=m, max_size=m))
    if all(x >= THR for x in v):
        v[0] = 1.0
    return np.array(v).reshape(shape).tolist()


@st.composite
def corridor_grids(draw):
    """n parallel corridors between a start rail and a stop rail (walls on the far side and at the end, so that the periodic boundary offers no
    short cut): corridor k has the barrier 100 - k but lies k steps away along the rails, so the cheapest route uses the nearest, highest
    barrier, and a search that lowers the barrier route by route needs one round per corridor; n up to 70"""
    n = draw(st.sampled_from([3, 8, 31, 33, 34, 41, 65, 70]))
    F = np.full((4, n + 1, 1), 1e8)
    F[0, :n, 0] = 1.0
    F[2, :n, 0] = 1.0
    F[1, :n, 0] = 100.0 - np.arange(n)
    return F.tolist()


@st.composite
def corridor_cases(draw, tier):
    F = draw(corridor_grids())
    n = np.shape(F)[1] - 1
    # admissible voxels in sorted order: (0, 0..n-1), (1, 0..n-1), (2, 0..n-1)
    return {'lattice': draw(gen.lattices(families=['cubic'], orients=['lower'])), 'F': F, 'threshold': 1e7, 'diagonal': draw(st.booleans()), 'method': draw(st.sampled_from(['minmax-energy', 'minmax-energy', 'dijkstra', 'dijkstra-exp', 'simple'])),
            'start': draw(st.sampled_from([0, 0, 1])), 'stop': 2 * n + draw(st.sampled_from([0, 0, 2])), 'default_graph': draw(st.booleans()), 'layout': draw(st.sampled_from(['C', 'F']))}


@st.composite
def optimal_cases(draw, tier):
    return {'lattice': draw(gen.lattices(families=['cubic', 'orthorhombic', 'triclinic'], orients=['lower'])), 'F': draw(st.one_of(grids(), grids(), ring_grids())),
            'threshold': draw(st.sampled_from([1e7, 1e7, 1e20, 3.0, 4.5])), 'diagonal': draw(st.sampled_from([True, True, False])),
            'method': draw(st.sampled_from(METHODS)), 'start': draw(st.integers(0, 124)), 'stop': draw(st.integers(0, 124)),
            'default_graph': draw(st.sampled_from([False, False, True])), 'other_graph_first': draw(st.booleans()), 'layout': draw(st.sampled_from(['C', 'C', 'F', 'T'])),
            'pre_queries': draw(st.lists(st.tuples(st.sampled_from(['minmax-energy', 'minmax-energy', 'dijkstra']), st.integers(0, 124), st.integers(0, 124)).map(list), max_size=2))}


@st.composite
def island_grids(draw):
    """grid with one admissible voxel whose 26 neighbours are all blocked (it cannot percolate) inside an otherwise open grid"""
    shape = [draw(st.integers(4, 5)) for _ in range(3)]
    F = np.array(draw(st.lists(st.sampled_from([0.0, 0.5, 1.0, 2.5]), min_size=int(np.prod(shape)), max_size=int(np.prod(shape))))).reshape(shape)
    c = [draw(st.integers(0, n - 1)) for n in shape]
    for d in oracle.ALL_MOVES:
        F[tuple((c[i] + d[i]) % shape[i] for i in range(3))] = 1e8
    F[tuple(c)] = draw(st.sampled_from([0.0, 0.5]))
    return F.tolist(), c


@st.composite
def percolate_cases(draw, tier):
    perc = draw(st.sampled_from(['x', 'y', 'z', 'xy', 'xz', 'yz', 'xyz', 'zyx', 'yx']))
    if draw(st.integers(0, 3)) == 0:
        F, c = draw(island_grids())
        adm = [idx for idx in np.ndindex(*np.shape(F)) if 0 <= np.array(F)[idx] < THR]
        k_island = adm.index(tuple(c))
        others = draw(st.lists(st.integers(0, len(adm) - 1), min_size=1, max_size=3))
        peaks = draw(st.permutations([k_island] + others))
        return {'lattice': draw(gen.lattices(families=['cubic'], orients=['lower'])), 'F': F, 'peaks': list(peaks), 'percolate': perc}
    return {'lattice': draw(gen.lattices(families=['cubic', 'orthorhombic', 'triclinic'], orients=['lower'])), 'F': draw(grids(max_side=4)),
            'peaks': draw(st.lists(st.integers(0, 63), min_size=1, max_size=4)), 'percolate': perc, 'layout': draw(st.sampled_from(['C', 'C', 'F', 'T']))}


@st.composite
def two_route_cases(draw, tier):
    n = draw(st.integers(4, 9))
    ax = draw(st.integers(0, 2))
    shape = [1, 1, 1]
    shape[ax] = n
    # start at ring position 0, stop at k: the short arc has k-1 voxels of higher energy, the long arc n-k-1 voxels of lower energy
    k = draw(st.integers(1, max(1, n // 2 - 1))) + 1
    v = [draw(st.sampled_from([0.0, 0.5, 1.0]))]
    v += [draw(st.sampled_from([2.0, 3.0, 4.0, 4.9])) for _ in range(k - 1)]
    v += [draw(st.sampled_from([0.0, 0.5, 1.0]))]
    v += [draw(st.sampled_from([0.5, 1.0, 1.5, 2.5])) for _ in range(n - k - 1)]
    rot = draw(st.integers(0, n - 1))
    v = v[-rot:] + v[:-rot] if rot else v
    return {'lattice': draw(gen.lattices(families=['cubic'], orients=['lower'])), 'F': np.array(v).reshape(shape).tolist(), 'threshold': 1e7,
            'diagonal': draw(st.booleans()), 'method': draw(st.sampled_from(METHODS)), 'start': rot, 'stop': (rot + k) % n,
            'default_graph': draw(st.booleans()),
            'pre_queries': draw(st.lists(st.tuples(st.sampled_from(['minmax-energy', 'minmax-energy', 'dijkstra']), st.integers(0, 8), st.integers(0, 8)).map(list), max_size=2))}


_TINY_SHAPES = [(2, 2, 1), (3, 1, 1), (1, 2, 2), (2, 1, 3)]
_TINY_VALUES = [0.0, 1.0, 2.5, 1e8]


def tiny_size(tier):
    return sum(len(_TINY_VALUES) ** int(np.prod(sh)) for sh in (_TINY_SHAPES if tier == 'thorough' else _TINY_SHAPES[:2]))


def tiny_case(tier, idx):
    for sh in _TINY_SHAPES:
        m = len(_TINY_VALUES) ** int(np.prod(sh))
        if idx < m:
            break
        idx -= m
    n = int(np.prod(sh))
    vals = []
    for _ in range(n):
        vals.append(_TINY_VALUES[idx % len(_TINY_VALUES)])
        idx //= len(_TINY_VALUES)
    return {'F': np.array(vals).reshape(sh).tolist(), 'shape': list(sh)}


def run_tiny(case):
    """one tiny grid: every admissible (start, stop) pair x 5 methods x 2 neighbourhoods, and every percolation direction set"""
    F = np.array(case['F'], float)
    adm = [idx for idx in np.ndindex(*F.shape) if 0 <= F[idx] < THR]
    if not adm:
        raise Skip()
    lat = {'family': 'cubic', 'orient': 'lower', 'params': [5, 5, 5, 90, 90, 90], 'matrix': [[5.0, 0, 0], [0, 5.0, 0], [0, 0, 5.0]]}
    count = nt = 0
    for a in range(len(adm)):
        for b in range(len(adm)):
            for method in METHODS:
                for diag in (True, False):
                    info = run_optimal({'lattice': lat, 'F': case['F'], 'threshold': THR, 'diagonal': diag, 'method': method, 'start': a, 'stop': b, 'default_graph': False})
                    count += 1
                    nt += bool(info['nontrivial'])
    for perc in ('x', 'y', 'z', 'xy', 'xz', 'yz', 'xyz'):
        for peaks in ([0], list(range(len(adm)))[::-1]):
            info = run_percolate({'lattice': lat, 'F': case['F'], 'peaks': peaks, 'percolate': perc})
            count += 1
            nt += bool(info['nontrivial'])
    return {'nontrivial': nt > 0, 'count': count, 'nontrivial_count': nt, 'labels': []}


SUBS = [
    Sub(name='optimal', kind='hyp', run=run_optimal, strategy=optimal_cases,
        rule='grids with sides 1-5, energies [0,5] + blocked voxels, thresholds {1e7, 1e20, 3.0, 4.5}, 5 methods x 2 neighbourhoods, explicit and default graph; validity + cost minimality by own search',
        n={'quick': 250, 'thorough': 5000}, shards={'quick': 12, 'thorough': 16}),
    Sub(name='percolating', kind='hyp', run=run_percolate, strategy=percolate_cases,
        rule='grids with sides 1-4, 1-4 admissible peaks, every non-empty subset of xyz (also permuted letters); validity in the independently tiled grid, minimum over peaks, wrapped/fractional coordinates',
        n={'quick': 150, 'thorough': 3000}, shards={'quick': 8, 'thorough': 16}),
    Sub(name='two-routes', kind='hyp', run=run_optimal, strategy=two_route_cases,
        rule='periodic rings of 4-9 voxels without blocked voxels: exactly two routes between start and stop, so the five criteria disagree often',
        n={'quick': 150, 'thorough': 3000}, shards={'quick': 4, 'thorough': 16}),
    Sub(name='corridors', kind='hyp', run=run_optimal, strategy=corridor_cases,
        rule='grids of 3 - 70 parallel corridors whose barriers decrease while their total energies increase (a barrier-lowering search needs one round per corridor): validity + cost minimality of all methods, minmax-energy twice as often',
        n={'quick': 12, 'thorough': 200}, shards={'quick': 4, 'thorough': 16}),
    Sub(name='n-paths', kind='hyp', run=run_npaths, strategy=npaths_cases,
        rule='optimal_n_paths (FreeEnergyVolume method with default / explicit graph, module-level functions on an array / a volume): grids with sides 1-4 and at most 7 admissible voxels, 5 methods x 2 neighbourhoods, n_paths 1-4, min_diff 0-0.9: every returned path is a valid path between the requested voxels with the voxel energies, the first one is cost-minimal by own search; wrapped / fractional sites and total_length (sum of minimum-image step lengths) of each',
        n={'quick': 120, 'thorough': 2500}, shards={'quick': 6, 'thorough': 16}),
    Sub(name='enum-tiny-grids', kind='enum', run=run_tiny, size=tiny_size, case_at=tiny_case, exhaustive=True,
        rule='complete enumeration: every grid of shape (2,2,1), (3,1,1) (quick) + (1,2,2), (2,1,3) (thorough) over energies {0, 1, 2.5, blocked} x every admissible start/stop pair x 5 methods x 2 neighbourhoods, and every percolation direction set with the first peak / all peaks (each call is one evaluation)',
        shards={'quick': 16, 'thorough': 16}),
]
