"""C14  Derived metrics obey their formulas and physical scaling laws."""
from __future__ import annotations

import numpy as np
from hypothesis import strategies as st

from .. import cases, gen, oracle
from ..runner import Sub, Violation, gcall

PROPERTY = 'C14'
LEVEL = 'exploration'
RULE = ('cases are vibrating + hopping paths in all lattices with ion charge, dimensions, temperature, a cell scale k, a time scale s and a '
        'number of parts; non-trivial = (k != 1 or s != 1) and |z| != 1 and >= 2 different masses and a non-cubic cell')
ASSUMPTIONS = [
    'every atom moves in every frame (attempt frequency defined) and |step| < 1/2 per component',
    'atomic masses are read from pymatgen (data, not logic); constants k_B, e, N_A typed in from CODATA 2018',
    'comparisons are relative (rtol 1e-9), never against an absolute tolerance on SI-sized numbers',
]
RT = 1e-9


def close(a, b, rt=RT):
    a, b = float(a), float(b)
    return abs(a - b) <= rt * max(abs(a), abs(b)) or (a == b)


def masses(symbols):
    from pymatgen.core import Element

    return np.array([float(Element(s).atomic_mass) for s in symbols])


def own_metrics(path, M, symbols, dt, temp, z, dims):
    """Defining formulas on the unwrapped path (T, N, 3)."""
    T, N, _ = path.shape
    cart = (path - path[0][None]) @ M
    out = {}
    vol = oracle.volume(M) * oracle.ANGSTROM**3
    out['particle_density'] = N / vol
    out['mol_per_liter'] = out['particle_density'] * 1e-3 / oracle.N_A
    out['tracer_diffusivity'] = float(np.mean(np.sum(cart[-1] ** 2, axis=-1))) * oracle.ANGSTROM**2 / (2 * dims * T * dt)
    out['tracer_conductivity'] = oracle.E_CHARGE**2 * z**2 * out['tracer_diffusivity'] * out['particle_density'] / (oracle.K_B * temp)
    w = masses(symbols)
    com = (path * w[None, :, None]).sum(axis=1) / w.sum()
    comc = (com - com[0][None]) @ M
    out['tracer_diffusivity_center_of_mass'] = float(np.sum(comc[-1] ** 2)) * oracle.ANGSTROM**2 / (2 * dims * T * dt)
    out['final_distance_sum'] = float(np.linalg.norm(cart[-1], axis=-1).sum())
    return out


def lib_metrics(t, z, dims):
    m = gcall(t.metrics)
    out = {
        'particle_density': float(gcall(m.particle_density)),
        'mol_per_liter': float(gcall(m.mol_per_liter)),
        'tracer_diffusivity': float(gcall(m.tracer_diffusivity, dimensions=dims)),
        'tracer_conductivity': float(gcall(m.tracer_conductivity, z_ion=z, dimensions=dims)),
        'tracer_diffusivity_center_of_mass': float(gcall(m.tracer_diffusivity_center_of_mass, dimensions=dims)),
        'attempt_frequency': float(gcall(m.attempt_frequency)[0]),
        'attempt_frequency_std': float(gcall(m.attempt_frequency)[1]),
        'vibration_amplitude': float(gcall(m.vibration_amplitude)),
        'amplitudes': np.array(gcall(m.amplitudes), float),
    }
    out['haven_ratio'] = float(gcall(m.haven_ratio, dimensions=dims, allow=(ZeroDivisionError,))) if out['tracer_diffusivity_center_of_mass'] > 0 else None
    return out


def unwrap(pos):
    d = pos[1:] - pos[:-1]
    d = d - np.round(d)
    return np.concatenate([pos[:1], pos[:1] + np.cumsum(d, axis=0)], axis=0)


def run(case):
    path = np.array(case['path'], float)
    T, N, _ = path.shape
    M = np.array(case['lattice']['matrix'], float)
    if case.get('swap_axes'):
        # the same crystal described with two cell vectors exchanged (a left-handed set of cell vectors)
        M = M[[1, 0, 2]]
        path = path[:, :, [1, 0, 2]]
    sym, dt, temp = case['symbols'], case['time_step'], case['temperature']
    z, dims, k, s, n_parts = case['z_ion'], case['dimensions'], case['k'], case['s'], case['n_parts']

    def make(Mx, dtx, p=path):
        return cases.derived_trajectory(p - np.floor(p), sym, Mx, dtx, temp, case['species_kind'], derive=case.get('derive'))

    t = make(M, dt)
    got = lib_metrics(t, z, dims)
    want = own_metrics(path, M, sym, dt, temp, z, dims)
    def tol_ok(key, a, b, g, rt=1e-8):
        """|a - b| within rtol, plus an absolute round-off allowance tied to the natural scale of the quantity
        (a centre-of-mass diffusivity, an amplitude spread or a frequency spread may legitimately be pure round-off)."""
        a, b = float(a), float(b)
        scale = {'tracer_diffusivity_center_of_mass': N * abs(g['tracer_diffusivity']),
                 'vibration_amplitude': float(np.abs(g['amplitudes']).max()) if len(g['amplitudes']) else 0.0,
                 'attempt_frequency_std': abs(g['attempt_frequency'])}.get(key, 0.0)
        return abs(a - b) <= rt * max(abs(a), abs(b)) + 1e-9 * scale

    for key in ('particle_density', 'mol_per_liter', 'tracer_diffusivity', 'tracer_conductivity', 'tracer_diffusivity_center_of_mass'):
        if not tol_ok(key, got[key], want[key], got, RT):
            raise Violation('formula-' + key, f'reported {got[key]!r}, defining formula gives {want[key]!r} (z={z}, dims={dims}, T={temp}, atoms={sym}, cell={case["lattice"]["family"]})')
    if got['haven_ratio'] is not None and want['tracer_diffusivity_center_of_mass'] > 1e-6 * want['tracer_diffusivity']:
        wh = want['tracer_diffusivity'] / want['tracer_diffusivity_center_of_mass']
        if not close(got['haven_ratio'], wh, 1e-7):
            raise Violation('formula-haven_ratio', f'reported {got["haven_ratio"]!r}, D / D_com = {wh!r}')
    if not np.all(np.isfinite(got['amplitudes'])) or abs(got['amplitudes'].sum() - want['final_distance_sum']) > 1e-9 * max(1.0, want['final_distance_sum']):
        raise Violation('amplitudes-sum-to-final-distance', f'sum of amplitudes {got["amplitudes"].sum()!r}, sum of final distances {want["final_distance_sum"]!r}')
    if N > 1:
        for i in range(N):
            ti = cases.trajectory((path - np.floor(path))[:, i : i + 1], sym[i : i + 1], M, dt, temp, case['species_kind'])
            ai = np.array(gcall(gcall(ti.metrics).amplitudes), float)
            fd = float(np.linalg.norm((path[-1, i] - path[0, i]) @ M))
            if abs(ai.sum() - fd) > 1e-9 * max(1.0, fd):
                raise Violation('amplitudes-sum-to-final-distance', f'atom {i}: sum {ai.sum()!r} vs final distance {fd!r}')
    # the constructor's other input form: per-frame displacements plus starting positions, where the atoms have already moved in the
    # first stored frame (the starting point is base_positions): amplitudes still sum to the final distance from the starting point
    for i in range(min(N, 2)):
        stp = np.concatenate([path[1:2, i : i + 1] - path[:1, i : i + 1], np.diff(path[:, i : i + 1], axis=0)], axis=0)  # first row = a real step
        base = path[0, i : i + 1] - np.floor(path[0, i : i + 1])
        td = cases.trajectory(stp, sym[i : i + 1], M, dt, temp, case['species_kind'], coords_are_displacement=True, base_positions=base)
        fd = float(np.linalg.norm(stp.sum(axis=0)[0] @ M))
        ld = float(np.asarray(gcall(td.distances_from_base_position))[0, -1])
        ad = np.array(gcall(gcall(td.metrics).amplitudes), float)
        if abs(ld - fd) > 1e-9 * max(1.0, fd) or abs(ad.sum() - fd) > 1e-9 * max(1.0, fd):
            raise Violation('amplitudes-sum-to-final-distance', f'displacement input whose first row is a step: sum of amplitudes {ad.sum()!r}, distance from the starting point {ld!r}, base -> final is {fd!r}')
    if not np.isfinite(got['attempt_frequency']) or got['attempt_frequency'] <= 0:
        raise Violation('attempt-frequency-defined', f'{got["attempt_frequency"]!r}')

    # ---- scaling laws
    tk = make(M * k, dt)
    gk = lib_metrics(tk, z, dims)
    laws = [('tracer_diffusivity', k**2), ('tracer_diffusivity_center_of_mass', k**2), ('vibration_amplitude', k), ('particle_density', k**-3),
            ('attempt_frequency', 1.0), ('attempt_frequency_std', 1.0), ('mol_per_liter', k**-3), ('tracer_conductivity', k**-1)]
    for key, f in laws:
        if not tol_ok(key, gk[key], got[key] * f, gk):
            raise Violation('cell-scaling-' + key, f'cell x{k}: {got[key]!r} -> {gk[key]!r}, expected factor {f!r}')
    if gk['amplitudes'].shape != got['amplitudes'].shape or np.abs(gk['amplitudes'] - got['amplitudes'] * k).max() > 1e-8 * max(1.0, np.abs(got['amplitudes']).max() * k):
        raise Violation('cell-scaling-amplitudes', f'cell x{k}')
    ts = make(M, dt * s)
    gs = lib_metrics(ts, z, dims)
    for key, f in [('tracer_diffusivity', 1 / s), ('tracer_diffusivity_center_of_mass', 1 / s), ('attempt_frequency', 1 / s), ('attempt_frequency_std', 1 / s),
                   ('vibration_amplitude', 1.0), ('particle_density', 1.0), ('tracer_conductivity', 1 / s)]:
        if not tol_ok(key, gs[key], got[key] * f, gs):
            raise Violation('time-scaling-' + key, f'time step x{s}: {got[key]!r} -> {gs[key]!r}, expected factor {f!r}')

    # ---- formulas still hold on "the same trajectory" after it has been queried and then extended in place
    h = case.get('extend_at', 0)
    if 2 <= h <= T - 2:
        t1, t2 = make(M, dt, path[:h]), make(M, dt, path[h:])
        lib_metrics(t1, z, dims)
        gcall(t1.extend, t2)
        ge = lib_metrics(t1, z, dims)
        for key in ('tracer_diffusivity', 'tracer_conductivity', 'tracer_diffusivity_center_of_mass'):
            if not tol_ok(key, ge[key], want[key], ge, RT):
                raise Violation('formula-after-extend-' + key, f'after metrics, extend({T - h} frames), metrics: reported {ge[key]!r}, formula on the {T}-frame trajectory gives {want[key]!r}')
        if abs(ge['amplitudes'].sum() - want['final_distance_sum']) > 1e-9 * max(1.0, want['final_distance_sum']):
            raise Violation('amplitudes-sum-to-final-distance', 'after extend')

    # ---- identical motion => Haven ratio 1
    ident = path[:, :1, :] - path[:1, :1, :] + path[:1, :, :]
    if np.linalg.norm((ident[-1, 0] - ident[0, 0]) @ M) > 1e-3:
        ti = make(M, dt, ident)
        h = float(gcall(gcall(ti.metrics).haven_ratio, dimensions=dims))
        if not close(h, 1.0, 1e-7):
            raise Violation('identical-motion-haven-one', f'Haven ratio {h!r} for {N} atoms moving identically (masses {masses(sym).tolist()})')

    # ---- mean / std over sub-trajectories
    if n_parts <= (T - 1) // 3:
        from gemdat.metrics import TrajectoryMetricsStd

        parts = gcall(t.split, n_parts, equal_parts=True)
        std = TrajectoryMetricsStd(parts)
        per = []
        for p in parts:
            pp = unwrap(np.array(gcall(lambda: p.positions)))
            per.append(own_metrics(pp, M, sym, dt, temp, z, dims))
            per[-1]['vib'] = float(gcall(gcall(p.metrics).vibration_amplitude))
        for name, fn, key in [('tracer_diffusivity', lambda: std.tracer_diffusivity(dimensions=dims), 'tracer_diffusivity'),
                              ('tracer_conductivity', lambda: std.tracer_conductivity(z_ion=z, dimensions=dims), 'tracer_conductivity'),
                              ('vibration_amplitude', lambda: std.vibration_amplitude(), 'vib')]:
            u = gcall(fn)
            vals = np.array([q[key] for q in per])
            if not close(u.n, vals.mean(), 1e-8) or abs(u.s - vals.std()) > 1e-8 * max(abs(vals.mean()), vals.std()):
                raise Violation('std-' + name, f'{n_parts} parts: reported {u.n!r} +/- {u.s!r}, numpy mean/population std of per-part values {vals.mean()!r} +/- {vals.std()!r}')
        sp_mean, sp_std = gcall(std.speed)
        sp = np.array([np.array(gcall(gcall(p.metrics).speed)) for p in parts])
        if np.abs(np.array(sp_mean) - sp.mean(axis=0)).max() > 1e-9 or np.abs(np.array(sp_std) - sp.std(axis=0)).max() > 1e-9:
            raise Violation('std-speed', '')
        amps = [np.array(gcall(gcall(p.metrics).amplitudes), float) for p in parts]
        if len({a.shape for a in amps}) == 1 and amps[0].size:
            # the element-wise mean/std over parts is only defined when every part has the same number of amplitudes
            am, asd = gcall(std.amplitudes)
            if np.abs(np.array(am) - np.mean(amps, axis=0)).max() > 1e-9 or np.abs(np.array(asd) - np.std(amps, axis=0)).max() > 1e-9:
                raise Violation('std-amplitudes', f'{n_parts} parts')
        split_done = True
    else:
        split_done = False

    # ---- mean / std over a list of independent trajectories (different volume, time step and temperature)
    from gemdat.metrics import TrajectoryMetricsStd as _Std

    # (the trajectories of such a list need not have the same number of frames: two of them are shorter runs)
    reps = [(M, dt, temp, T), (M * k, dt, temp + 50.0, T), (M, dt * s, temp, T)] + ([(M, dt, temp, T - 1), (M * k, dt, temp, T - 2)] if T >= 6 else [])
    rt = [cases.trajectory((path - np.floor(path))[:n_], sym, m_, d_, t_, case['species_kind']) for m_, d_, t_, n_ in reps]
    own = [own_metrics(path[:n_], m_, sym, d_, t_, z, dims) for m_, d_, t_, n_ in reps]
    sr = _Std(rt)
    for name, fn, key in [('tracer_diffusivity', lambda: sr.tracer_diffusivity(dimensions=dims), 'tracer_diffusivity'), ('tracer_conductivity', lambda: sr.tracer_conductivity(z_ion=z, dimensions=dims), 'tracer_conductivity')]:
        u = gcall(fn)
        vals = np.array([q[key] for q in own])
        if not close(u.n, vals.mean(), 1e-8) or abs(u.s - vals.std()) > 1e-8 * max(abs(vals.mean()), vals.std()):
            raise Violation('std-over-list-' + name, f'reported {u.n!r} +/- {u.s!r}, numpy mean/population std of the per-trajectory values {vals.mean()!r} +/- {vals.std()!r}')

    fam = case['lattice']['family']
    labels = [fam, f'dims={dims}', 'z=' + str(z), 'parts' if split_done else 'no-parts']
    nt = (k != 1 or s != 1) and abs(z) != 1 and len(set(masses(sym).tolist())) >= 2 and fam != 'cubic'
    return {'nontrivial': bool(nt), 'labels': labels}


@st.composite
def metric_cases(draw, tier):
    big = tier == 'thorough'
    c = draw(gen.path_cases(min_frames=4, max_frames=40 if big else 16, max_atoms=6 if big else 4, max_step=0.3,
                            step_kinds=[0.02, 0.05, 0.05, 0.3], specials=False))
    path = np.array(c['path'])
    T, N, _ = path.shape
    # every atom moves in every frame: add a deterministic non-zero wobble + drift
    drift = np.array(draw(st.lists(st.sampled_from([0.01, -0.02, 0.05, -0.11, 0.17]), min_size=3 * N, max_size=3 * N))).reshape(1, N, 3)
    c['path'] = (path + drift * np.arange(T).reshape(T, 1, 1)).tolist()
    c['z_ion'] = draw(st.sampled_from([-3, -2, -1, 1, 2, 3]))
    c['dimensions'] = draw(st.sampled_from([1, 2, 3]))
    c['temperature'] = draw(st.sampled_from([1.0, 123.0, 300.0, 650.5, 1500.0]))
    c['k'] = draw(st.sampled_from([0.25, 0.5, 1.0, 1.7, 3.0, 4.0, 2.0**-12, 1e-6, 1e-3, 1e4]))  # (also changes of unit: a cell in micrometres / in fm)
    c['s'] = draw(st.sampled_from([0.25, 0.5, 1.0, 2.0, 3.3, 4.0, 1.4142135623730951, 0.3333333333333333]))
    c['extend_at'] = draw(st.integers(0, T))
    c['swap_axes'] = draw(st.sampled_from([False, False, True]))
    c['n_parts'] = draw(st.integers(2, max(2, min(5, (T - 1) // 3))))
    c['derive'] = draw(cases.derive_strategy())  # the trajectory as a frame range / species selection / joined pieces of other trajectories
    return c


SUBS = [
    Sub(name='metrics', kind='hyp', run=run, strategy=metric_cases,
        rule='4-16 (40) frames x 1-4 (6) atoms, all lattices, z in +-1..3, dimensions 1-3, T in {1..1500} K, k, s in [0.25, 4], 2-5 parts',
        n={'quick': 120, 'thorough': 2000}, shards={'quick': 12, 'thorough': 16}),
]
