"""C13  Drift correction removes exactly the reference-frame motion."""
from __future__ import annotations

import numpy as np
from hypothesis import strategies as st

from .. import cases, gen, oracle
from ..runner import Sub, Violation, gcall

PROPERTY = 'C13'
LEVEL = 'exploration'
RULE = ('cases are multi-species unwrapped paths plus a reference specification (fixed / floating, str / list / tuple / set, or none) '
        'and an injected rigid time-dependent translation; non-trivial = >= 2 reference atoms, >= 2 species and a non-zero injected drift')
ASSUMPTIONS = [
    'per-frame step + injected drift stays below 1/2 - 1e-6 per component so every minimum-image step is unambiguous',
    'the reference set is non-empty (a reference set without atoms has no mean displacement)',
    'tolerances: circular 1e-9 on fractional positions, 1e-9 on mean displacements',
]


def _coll(kind, items):
    items = list(items)
    if kind == 'str':
        return items[0]
    return {'list': list, 'tuple': tuple, 'set': set}[kind](items)


ABSENT = ['Al', 'Ti', 'Zr', 'La', 'Ge', 'Cl', 'Br', 'Mg', 'Ca', 'Sr', 'Ba', 'Y', 'Nb', 'Ta', 'W', 'Mo']  # elements that never occur in the generated trajectories


def _kwargs(case, symbols_ref, symbols_float):
    mode, kind = case['ref_mode'], case['ref_kind']
    pad = ABSENT[: case.get('pad_names', 0)] if kind != 'str' else []  # a generic framework list may name species this run does not contain
    symbols_ref, symbols_float = list(symbols_ref) + pad, list(symbols_float) + pad
    if mode == 'fixed':
        return {'fixed_species': _coll(kind, symbols_ref)}
    if mode == 'floating':
        return {'floating_species': _coll(kind, symbols_float)}
    return {}


def _steps(pos):
    d = pos[1:] - pos[:-1]
    return d - np.round(d)


TOL0 = 1e-11  # fractional units for runs of up to 1000 frames; positions are running sums, so the allowance grows with the number of frames
# (a thorough-tier run of 7800 frames with an injected drift reached 1.4e-11)


def run(case):
    path = np.array(case['path'], float)
    rigid = np.array(case['rigid'], float)  # (T, 3), rigid[0] == 0
    if case.get('tile', 1) > 1:
        # a long run: the generated motion repeated end to end (per-frame steps are unchanged)
        st_, rs_ = np.diff(path, axis=0), np.diff(rigid, axis=0)
        k = case['tile']
        path = np.concatenate([path[:1], path[:1] + np.cumsum(np.tile(st_, (k, 1, 1)), axis=0)], axis=0)
        rigid = np.concatenate([rigid[:1], np.cumsum(np.tile(rs_, (k, 1)), axis=0)], axis=0)
    symbols = case['symbols']
    if case.get('replicate', 1) > 1:
        # the same system with every atom repeated r times at positions shifted by small, atom-specific offsets (thousands of atoms)
        r = case['replicate']
        off = (np.arange(r).reshape(1, r, 1, 1) * np.array([0.00037, 0.00011, 0.00023]).reshape(1, 1, 1, 3))
        path = (path[:, None, :, :] + off).reshape(path.shape[0], -1, 3)
        symbols = list(symbols) * r
    T, N, _ = path.shape
    TOL = TOL0 * max(1.0, T / 1000.0)
    M = np.array(case['lattice']['matrix'], float)
    kinds = sorted(set(symbols))
    order = [k for k in case.get('ref_order', []) if k < len(kinds)]
    kinds = [kinds[k] for k in order] + [x for i, x in enumerate(kinds) if i not in order]
    mode = case['ref_mode']
    if mode == 'none':
        ref_syms, float_syms = kinds, []
    else:
        k = 1 if case['ref_kind'] == 'str' else max(1, min(len(kinds) - 1, case['ref_count']))
        if mode == 'fixed':
            ref_syms = kinds[:k]
            float_syms = kinds[k:]
        else:
            float_syms = kinds[:k]
            ref_syms = kinds[k:]
    ref_idx = [i for i, s in enumerate(symbols) if s in ref_syms]
    assert ref_idx, 'generator guarantees a non-empty reference set'
    kw = _kwargs(case, ref_syms, float_syms)

    def make(p):
        coords = p - np.floor(p) if case['form'] == 'wrapped' else p
        return cases.derived_trajectory(coords, symbols, M, case['time_step'], case['temperature'], case['species_kind'], derive=case.get('derive'))

    t0 = make(path)
    if case.get('touch_first'):
        gcall(lambda: t0.displacements)
    c0 = gcall(t0.apply_drift_correction, **kw, clause='drift-correction-fails')
    p0 = np.array(gcall(lambda: c0.positions))
    if not np.all(np.isfinite(p0)):
        raise Violation('corrected-positions-finite', f'NaN/inf in corrected positions for {kw} (species given as {case["species_kind"]})')

    # model: subtract the reference atoms' mean step from every atom's step
    steps = path[1:] - path[:-1]
    want = np.concatenate([path[:1], path[:1] + np.cumsum(steps - steps[:, ref_idx].mean(axis=1, keepdims=True), axis=0)], axis=0)
    err = oracle.circ_diff(p0, want)
    if err.max() > TOL:
        t_, a_, k_ = np.unravel_index(np.argmax(err), err.shape)
        raise Violation('corrected-motion-equals-model', f'{kw}: frame {t_} atom {a_} axis {k_} deviates by {err.max():.3e} from path minus reference mean step')

    # clause: mean per-frame displacement of the reference species is zero in every frame
    mean_ref = _steps(p0)[:, ref_idx].mean(axis=1)
    if T > 1 and np.abs(mean_ref).max() > TOL:
        raise Violation('reference-mean-displacement-zero', f'{kw}: mean reference displacement {np.abs(mean_ref).max():.3e} at frame {int(np.argmax(np.abs(mean_ref).max(axis=1))) + 1}')
    # also through the library's own drift() on the corrected trajectory
    d_after = np.array(gcall(c0.drift, **kw))
    if not np.all(np.isfinite(d_after)) or np.abs(d_after).max() > TOL:
        raise Violation('residual-drift-zero', f'{kw}: drift() of the corrected trajectory is {np.abs(d_after).max()!r}')

    # clause: first frame, species, lattice, time step, metadata unchanged
    if oracle.circ_diff(p0[0], path[0]).max() > TOL:
        raise Violation('first-frame-unchanged', f'{oracle.circ_diff(p0[0], path[0]).max():.3e}')
    if [str(s) for s in c0.species] != [str(s) for s in t0.species]:
        raise Violation('species-unchanged', f'{c0.species} vs {t0.species}')
    if np.abs(np.array(c0.get_lattice().matrix) - M).max() > 1e-12:
        raise Violation('lattice-unchanged', '')
    if c0.time_step != t0.time_step:
        raise Violation('time-step-unchanged', f'{c0.time_step} vs {t0.time_step}')
    if c0.metadata != t0.metadata:
        raise Violation('metadata-unchanged', f'{c0.metadata} vs {t0.metadata}')
    # source not altered
    if oracle.circ_diff(np.array(gcall(lambda: t0.positions)), path).max() > TOL:
        raise Violation('source-unchanged', 'source trajectory positions changed by apply_drift_correction')

    # clause: idempotent
    c1 = gcall(c0.apply_drift_correction, **kw)
    p1 = np.array(gcall(lambda: c1.positions))
    if oracle.circ_diff(p1, p0).max() > TOL:
        raise Violation('idempotent', f'{kw}: second correction moves atoms by {oracle.circ_diff(p1, p0).max():.3e}')

    # clause: injected rigid drift is removed
    td = make(path + rigid[:, None, :])
    cd = gcall(td.apply_drift_correction, **kw)
    pd_ = np.array(gcall(lambda: cd.positions))
    if oracle.circ_diff(pd_, p0).max() > TOL:
        raise Violation('injected-drift-removed', f'{kw}: corrected(X + d(t)) differs from corrected(X) by {oracle.circ_diff(pd_, p0).max():.3e}')

    # clause: floating S == fixed (all other species); none == all species
    if mode == 'none':
        alt = {'fixed_species': sorted(kinds)}
    elif mode == 'fixed':
        alt = {'floating_species': list(float_syms)} if float_syms else None
    else:
        alt = {'fixed_species': list(ref_syms)}
    if alt is not None:
        ca = gcall(t0.apply_drift_correction, **alt, clause='drift-correction-fails')
        pa = np.array(gcall(lambda: ca.positions))
        if not np.all(np.isfinite(pa)) or oracle.circ_diff(pa, p0).max() > TOL:
            raise Violation('floating-equals-complementary-fixed', f'{kw} vs {alt}: positions differ by {oracle.circ_diff(pa, p0).max() if np.all(np.isfinite(pa)) else "nan"}')
        da, db = np.array(gcall(t0.drift, **kw)), np.array(gcall(t0.drift, **alt))
        if da.shape != (T, 1, 3) or not np.all(np.isfinite(db)) or np.abs(da - db).max() > TOL:
            raise Violation('floating-equals-complementary-fixed', f'drift() differs between {kw} and {alt}')

    # the same species names in both roles on the same object: drift(fixed_species=S) is the mean step of S, drift(floating_species=S)
    # the mean step of everything else (asked in a case-dependent order, so neither answer may be remembered for the other)
    S = list(ref_syms)[:1] if case['ref_kind'] == 'str' else list(ref_syms)
    in_S = [i for i, x in enumerate(symbols) if x in S]
    others = [i for i in range(N) if i not in in_S]
    if others and in_S and mode != 'none':
        m_fixed = np.concatenate([np.zeros((1, 3)), steps[:, in_S].mean(axis=1)], axis=0)
        m_float = np.concatenate([np.zeros((1, 3)), steps[:, others].mean(axis=1)], axis=0)
        seq = [('fixed_species', m_fixed), ('floating_species', m_float)]
        if case.get('ref_count', 1) % 2:
            seq.reverse()
        for role, want_d in seq + seq[:1]:
            got_d = np.array(gcall(t0.drift, **{role: _coll(case['ref_kind'], S)}))
            if got_d.shape != (T, 1, 3) or not np.all(np.isfinite(got_d)) or np.abs(got_d[:, 0] - want_d).max() > TOL:
                raise Violation('drift-is-mean-step-of-the-reference', f'drift({role}={S}) on an object also asked for the other role: deviates by {np.abs(got_d[:, 0] - want_d).max() if got_d.shape == (T, 1, 3) else got_d.shape} from the mean step of the {"named" if role == "fixed_species" else "other"} species')

    labels = [case['lattice']['family'], 'mode-' + mode, 'kind-' + case['ref_kind'], 'species-as-' + case['species_kind']] + (['slow-motion'] if case.get('scale', 1.0) < 1e-6 else []) + (['derived-by-' + case['derive']['how']] if case.get('derive') else [])
    nz = bool(np.abs(rigid).max() > 0)
    return {'nontrivial': len(ref_idx) >= 2 and len(kinds) >= 2 and nz, 'labels': labels}


@st.composite
def drift_cases(draw, tier):
    big = tier == 'thorough'
    c = draw(gen.path_cases(max_frames=30 if big else 10, max_atoms=8 if big else 5, min_atoms=2, min_kinds=2, max_step=0.2,
                            step_kinds=[0.02, 0.05, 0.2], species_pool=['Li', 'Na', 'S', 'P', 'O', 'Si']))
    T = len(c['path'])
    n = (T - 1) * 3
    u = draw(st.lists(st.floats(-1, 1), min_size=n, max_size=n))
    amp = draw(st.sampled_from([0.0, 0.01, 0.1, 0.29]))
    rigid = np.concatenate([np.zeros((1, 3)), np.cumsum(np.array(u).reshape(T - 1, 3) * amp, axis=0)], axis=0)
    # slow motion: the whole motion (and the injected drift) scaled down so that per-frame drifts are far below 1e-8
    scale = draw(st.sampled_from([1.0, 1.0, 1.0, 1e-3, 1e-7, 3e-9]))
    if scale != 1.0:
        pth = np.array(c['path'])
        c['path'] = (pth[:1] + (pth - pth[:1]) * scale).tolist()
        rigid = rigid * scale
    c['scale'] = scale
    c['rigid'] = rigid.tolist()
    c['ref_mode'] = draw(st.sampled_from(['fixed', 'fixed', 'floating', 'floating', 'none']))
    c['ref_kind'] = draw(st.sampled_from(['str', 'list', 'tuple', 'set']))
    c['ref_count'] = draw(st.integers(1, 3))
    c['ref_order'] = draw(st.permutations(list(range(6))))
    c['form'] = draw(st.sampled_from(['wrapped', 'unwrapped']))
    c['touch_first'] = draw(st.booleans())
    c['species_kind'] = draw(st.sampled_from(['Species', 'Element', 'Species-oxi']))
    c['tile'] = draw(st.sampled_from([1, 1, 1, 1, 130, 260])) if T >= 9 else 1
    c['derive'] = draw(cases.derive_strategy())  # the trajectory under test as a frame range / species selection / joined pieces of other trajectories
    c['pad_names'] = draw(st.sampled_from([0, 0, 0, 3, 12, 16]))
    c['replicate'] = draw(st.sampled_from([1, 1, 1, 1, 1700, 2100])) if T <= 4 else 1  # every atom repeated: thousands of reference atoms
    return c


SUBS = [
    Sub(name='drift', kind='hyp', run=run, strategy=drift_cases,
        rule='2-10 (30) frames x 2-5 (8) atoms of >=2 species (Species or Element objects), reference given as fixed/floating str/list/tuple/set or none, injected rigid drift with |step + drift| < 1/2',
        n={'quick': 250, 'thorough': 3500}, shards={'quick': 8, 'thorough': 16}),
]
