"""C20  Memoised analysis results are transparent and never leak between objects (stateful)."""
from __future__ import annotations

import collections
import gc
import weakref

import numpy as np
from hypothesis import strategies as st
from hypothesis.stateful import initialize, rule

from .. import gen, oracle, sitesys
from ..runner import Raised, Skip, Sub, Violation, gcall, log_machine_base, quiet, replay_log

PROPERTY = 'C20'
LEVEL = 'exploration'
RULE = ('cases are histories of create / call-with-arguments / drop / garbage-collect / burst-create operations (i) on a synthetic class decorated with weak_lru_cache and '
        '(ii) on real Transitions, Jumps, TrajectoryMetrics and Collective objects built from generated systems; non-trivial = a history in which a new object received the '
        'address (id) of a collected object that had cache entries, or in which more than 128 live objects forced eviction')
ASSUMPTIONS = [
    'interleavings are explored sequentially (the harness owns those schedules); real threads are only stressed best-effort at a 1 microsecond switch interval - the GIL schedule is not controlled, so absence of a thread-only defect is not claimed',
    'CPython reference counting: an object without referrers is freed at once, gc.collect() additionally clears cycles',
    'the uncached value is method.__wrapped__(obj, *args); equality is deep (arrays, data frames, counters, graphs, Collective attributes), exact for integers and to rtol 1e-12 for floats (a recomputation may differ in the last bit)',
]


# ----------------------------------------------------------------------------- deep equality
def deep_equal(a, b, rtol=1e-12, arel=0.0):
    """rtol: relative tolerance for floats; arel: absolute tolerance as a fraction of the largest magnitude in the array"""
    import networkx as nx
    import pandas as pd

    def de(x, y):
        return deep_equal(x, y, rtol, arel)

    def close(x, y, floor=0.0):
        x, y = np.asarray(x, float), np.asarray(y, float)
        fin = np.abs(x[np.isfinite(x)])
        scale = float(fin.max()) if fin.size else 0.0
        return bool(np.allclose(x, y, rtol=rtol, atol=max(arel, floor) * scale, equal_nan=True))

    if isinstance(a, Raised) or isinstance(b, Raised):
        return isinstance(a, Raised) and isinstance(b, Raised) and type(a.exc) is type(b.exc)
    if type(a) is not type(b) and not (isinstance(a, (int, float, np.number)) and isinstance(b, (int, float, np.number))):
        return False
    if isinstance(a, np.ndarray):
        if a.dtype.names:
            return a.shape == b.shape and a.dtype == b.dtype and a.tobytes() == b.tobytes()
        if a.dtype.kind in 'fc':
            # a recomputation may differ in the last bits (numpy's SIMD reductions depend on memory alignment)
            return a.shape == b.shape and close(a, b)
        return a.shape == b.shape and bool(np.array_equal(a, b))
    if isinstance(a, pd.DataFrame):
        return a.shape == b.shape and list(a.columns) == list(b.columns) and list(a.index) == list(b.index) and close(a.to_numpy(dtype=float), b.to_numpy(dtype=float), floor=1e-12)  # (a std column of nearly equal values is pure round-off: absolute allowance relative to the table's largest entry)
    if isinstance(a, (nx.Graph, nx.DiGraph)):
        return dict(a.nodes(data=True)) == dict(b.nodes(data=True)) and sorted(a.edges) == sorted(b.edges) and all(de(a.edges[e].get('e_act'), b.edges[e].get('e_act')) for e in a.edges)
    if isinstance(a, (tuple, list)):
        return len(a) == len(b) and all(de(x, y) for x, y in zip(a, b))
    if isinstance(a, dict):
        return set(a) == set(b) and all(de(a[k], b[k]) for k in a)
    if isinstance(a, (float, np.floating)):
        return bool((a == b) or (a != a and b != b) or abs(a - b) <= rtol * max(abs(a), abs(b)))
    if type(a).__name__ == 'Collective':
        return (a.n_solo_jumps == b.n_solo_jumps and a.n_coll_jumps == b.n_coll_jumps and a.max_steps == b.max_steps and a.max_dist == b.max_dist
                and [tuple(map(tuple, x)) for x in a.coll_jumps] == [tuple(map(tuple, x)) for x in b.coll_jumps])
    if type(a).__name__ == 'Structure':
        return len(a) == len(b) and list(a.labels) == list(b.labels) and close([float(x.species.num_atoms) for x in a], [float(x.species.num_atoms) for x in b]) and close(a.frac_coords, b.frac_coords)
    return a == b


# ----------------------------------------------------------------------------- (i) the decorator itself
def synthetic_class():
    from gemdat.caching import weak_lru_cache

    class Obj:
        def __init__(self, payload):
            self.payload = payload
            self.calls = 0

        @weak_lru_cache()
        def f(self, a=0, *, b=1):
            self.calls += 1
            return (self.payload, 'f', a, b)

        @weak_lru_cache(maxsize=4)
        def g(self, a):
            self.calls += 1
            return [self.payload, 'g', a]

        @weak_lru_cache()
        def me(self):
            return {'payload': self.payload, 'n': np.arange(3) * self.payload}

    return Obj


LogMachine = log_machine_base()


class DecoratorMachine(LogMachine):
    def setup(self):
        self.Obj = synthetic_class()
        self.live = {}  # handle -> object
        self.next = 0
        self.dead_ids = set()
        self.cached = set()  # handles that have cache entries
        self.flags = {'id_reuse': 0, 'eviction': False}

    def _new(self):
        h = self.next
        self.next += 1
        o = self.Obj(1000 + h)
        if id(o) in self.dead_ids:
            self.flags['id_reuse'] += 1
        self.live[h] = o
        return h

    def _call(self, h, which, a, b):
        o = self.live[h]
        if which == 'f':
            got, want = o.f(a, b=b), (o.payload, 'f', a, b)
            got2 = o.f(a, b=b)
        elif which == 'g':
            got, want = o.g(a), [o.payload, 'g', a]
            got2 = o.g(a)
        else:
            got, want = o.me(), {'payload': o.payload, 'n': np.arange(3) * o.payload}
            got2 = o.me()
        self.cached.add(h)
        for g_ in (got, got2):
            if not deep_equal(g_, want):
                raise Violation('value-belongs-to-this-object', f'object with payload {o.payload} called {which}({a}, b={b}) got {g_!r}; expected {want!r} (history of {len(self.log)} operations, id reuse so far {self.flags["id_reuse"]})')
        unc = getattr(self.Obj, which).__wrapped__(o, a, b=b) if which == 'f' else (getattr(self.Obj, which).__wrapped__(o, a) if which == 'g' else self.Obj.me.__wrapped__(o))
        if not deep_equal(got, unc):
            raise Violation('cached-equals-uncached', f'{which}: {got!r} vs {unc!r}')

    def _drop(self, h):
        o = self.live.pop(h)
        r = weakref.ref(o)
        i = id(o)
        had = h in self.cached
        del o
        if r() is not None:  # CPython frees unreferenced objects at once; only a survivor needs the cycle collector
            gc.collect()
        if r() is not None:
            raise Violation('caching-does-not-keep-object-alive', f'synthetic object (cache entries: {had}) is still alive after its last reference was dropped and gc.collect()')
        if had:
            self.dead_ids.add(i)

    def apply(self, op):
        k = op['op']
        if k == 'new':
            self._new()
        elif k == 'burst':
            hs = [self._new() for _ in range(op['n'])]
            for h in hs:
                self._call(h, 'f', op['a'], 1)
            if len(self.live) > 128:
                self.flags['eviction'] = True
            for h in hs[: op['keep_calls']]:
                self._call(h, 'f', op['a'], 1)
            for h in hs[op['keep']:]:
                self._drop(h)
        elif not self.live:
            raise Skip()
        else:
            hs = sorted(self.live)
            h = hs[op['i'] % len(hs)]
            if k == 'call':
                self._call(h, op['which'], op['a'], op['b'])
            elif k == 'drop':
                self._drop(h)
            elif k == 'drop-create':
                self._drop(h)
                h2 = self._new()
                self._call(h2, op['which'], op['a'], op['b'])
            elif k == 'gc':
                gc.collect()

    def finish(self):
        for h in sorted(self.live):
            self._call(h, 'f', 0, 1)
        for h in sorted(self.live):
            self._drop(h)

    def info(self):
        labels = []
        if self.flags['id_reuse']:
            labels.append('address-reused-by-new-object')
        if self.flags['eviction']:
            labels.append('more-than-128-live-objects')
        return {'nontrivial': bool(labels), 'labels': labels}

    @rule()
    def r_new(self):
        self.step({'op': 'new'})

    @rule(i=st.integers(0, 50), which=st.sampled_from(['f', 'f', 'g', 'me']), a=st.integers(0, 6), b=st.integers(0, 2))
    def r_call(self, i, which, a, b):
        self.step({'op': 'call', 'i': i, 'which': which, 'a': a, 'b': b})

    @rule(i=st.integers(0, 50))
    def r_drop(self, i):
        self.step({'op': 'drop', 'i': i})

    @rule(i=st.integers(0, 50), which=st.sampled_from(['f', 'g', 'me']), a=st.integers(0, 6), b=st.integers(0, 2))
    def r_drop_create(self, i, which, a, b):
        self.step({'op': 'drop-create', 'i': i, 'which': which, 'a': a, 'b': b})

    @rule()
    def r_gc(self):
        self.step({'op': 'gc', 'i': 0})

    @rule(n=st.sampled_from([5, 130, 200]), a=st.integers(0, 3), keep=st.integers(0, 3), keep_calls=st.integers(0, 5))
    def r_burst(self, n, a, keep, keep_calls):
        self.step({'op': 'burst', 'n': n, 'a': a, 'keep': keep, 'keep_calls': keep_calls})


def _skip_safe(cls):
    orig = cls.step

    def step(self, op):
        try:
            orig(self, op)
        except Skip:
            self.log.pop()

    cls.step = step


_skip_safe(DecoratorMachine)


# ----------------------------------------------------------------------------- (ii) real analysis objects
METHODS = {
    'Transitions': [('matrix', [()]), ('states_next', [()]), ('states_prev', [()])],
    'JumpsShared': [('matrix', [()]), ('counter', [()]), ('jump_diffusivity', [(3,)]), ('_counter', [()])],
    'Jumps': [('matrix', [()]), ('counter', [()]), ('_counter', [()]), ('jump_diffusivity', [(1,), (2,), (3,)]), ('collective', [(), (2.5,)]), ('rates', [(1,), (2,)]),
              ('to_graph', [(), (-0.3, 0.4), {'max_e_act': 0.25}, {'min_e_act': -0.2}, {'max_e_act': 0.1, 'min_e_act': -0.5}, {'min_e_act': -1}, {'min_e_act': -2}]), ('activation_energies', [(1,), (2,)])],
    'TrajectoryMetrics': [('speed', [()]), ('particle_density', [()]), ('mol_per_liter', [()]), ('tracer_diffusivity', [{'dimensions': 1}, {'dimensions': 3}]),
                          ('tracer_conductivity', [{'z_ion': 1, 'dimensions': 3}, {'z_ion': 2, 'dimensions': 2}, {'z_ion': -1, 'dimensions': 3}, {'z_ion': -2, 'dimensions': 3}, {'z_ion': -3, 'dimensions': 1}]), ('attempt_frequency', [()]), ('vibration_amplitude', [()]),
                          ('amplitudes', [()]), ('haven_ratio', [{'dimensions': 3}]), ('tracer_diffusivity_center_of_mass', [{'dimensions': 3}])],
    'Trajectory': [('metrics', [()]), ('mean_squared_displacement', [()]), ('distances_from_base_position', [()]), ('center_of_mass', [()]), ('drift', [()]), ('to_volume', [(1.5,)])],
    'Collective': [('site_pair_count_matrix', [()]), ('site_pair_count_matrix_labels', [()]), ('multiple_collective', [()])],
}
# analysis entry points that are not memoised on the pinned tree: they are exercised too (whatever they memoise must not pin or leak)
# and compared with a pristine twin only
METHODS['Transitions'] += [('occupancy', [()]), ('atom_locations', [()]), ('occupancy_by_site_type', [()])]
METHODS['Jumps'] += [('activation_energy_between_sites', [('A', 'B'), ('B', 'A')])]
# objects derived from ONE shared parent trajectory (whole run / a slice of it; they share whatever the parent hands to derived trajectories)
METHODS['JumpsFamily'] = [('collective', [(), (2.5,)]), ('to_graph', [(), {'max_e_act': 0.25}]), ('activation_energies', [(1,), (2,)]), ('jump_diffusivity', [(3,)]), ('rates', [(1,)]), ('matrix', [()])]
METHODS['MetricsFamily'] = METHODS['TrajectoryMetrics']
# (Collective objects are cached *values* of Jumps.collective(): an entry of a dead owner may linger until it is evicted, by design)
ANALYSIS_CLASSES = ('Trajectory', 'Transitions', 'Jumps', 'TrajectoryMetrics')


def census():
    """number of live gemdat analysis objects in this process (after a collection)"""
    gc.collect()
    return sum(1 for o in gc.get_objects() if type(o).__name__ in ANALYSIS_CLASSES and type(o).__module__.startswith('gemdat'))


def history_transitions(h):
    from gemdat.transitions import Transitions, _calculate_transition_events

    from . import c03, c19

    states, inner = np.array(h['states'], dtype=int), np.array(h['inner'], dtype=int)
    T, N = states.shape
    events = gcall(_calculate_transition_events, atom_sites=states, atom_inner_sites=inner)
    return Transitions(trajectory=c19.frame_coded(T, N), diff_trajectory=c19.frame_coded(T, N), sites=c03.dummy_sites(int(states.max()) + 1), events=events, states=states, inner_states=inner)


def make_conversion(which):
    """user-supplied conversion methods for Jumps(conversion_method=...): two closures from one factory (same __name__, different
    behaviour) and a functools.partial (no __name__ at all); each keeps a different subset of the default jumps"""
    import functools

    from gemdat.jumps import _generic_transitions_to_jumps

    def select(transitions, minimal_residence=0, rule=0):
        df = _generic_transitions_to_jumps(transitions, minimal_residence=minimal_residence)
        keep = (df['start site'] != 0) if rule == 1 else ((df['start time'] % 2 == 0) if rule == 2 else (df['destination site'] != 0))
        out = df[keep].reset_index(drop=True)
        if len(out) == 0:
            raise ValueError('No jumps found')
        return out

    if which == 3:
        return functools.partial(select, rule=3)

    def conv(transitions, minimal_residence=0):
        return select(transitions, minimal_residence=minimal_residence, rule=which)

    return conv


def own_rates(j, n_parts):
    """rates from this object's transitions, split and classified independently of Jumps.split"""
    import pandas as pd
    from gemdat.jumps import Jumps

    parts = [gcall(Jumps, p, conversion_method=j.conversion_method, minimal_residence=j.minimal_residence, allow=(ValueError,)) for p in gcall(j.transitions.split, n_parts)]
    if any(isinstance(p, Raised) for p in parts):
        return None
    counters = [gcall(p.counter) for p in parts]
    denom = j.n_floating * j.trajectory.total_time / n_parts
    dct = {}
    for pair in j.site_pairs:
        vals = [c[pair] for c in counters]
        dct[pair] = float(np.mean(vals) / denom), float(np.std(vals, ddof=1) / denom)
    df = pd.DataFrame(dct).T
    df.columns = ('rates', 'std')
    return df


class RealMachine(LogMachine):
    def setup(self):
        self.systems = []
        self.shared = {}
        self.live = {}
        self.next = 0
        self.dead_ids = set()
        self.cached = set()
        self.parents = {}
        self.census0 = census()
        self.flags = {'id_reuse': 0, 'eviction': False, 'kinds': set(), 'family': 0}

    def build(self, k, kind, pristine=False):
        from gemdat.jumps import Jumps
        from gemdat.metrics import TrajectoryMetrics

        case = self.systems[k % len(self.systems)]
        if kind in ('JumpsFamily', 'MetricsFamily'):
            # derived from one shared parent trajectory object per system: the whole run or one of two slices of it
            ks = k % len(self.systems)
            if pristine:
                parent = sitesys.full_trajectory(case)
            else:
                if ks not in self.parents:
                    self.parents[ks] = sitesys.full_trajectory(case)
                parent = self.parents[ks]
            variant = (k // len(self.systems)) % 3
            T = len(parent)
            sub = parent if variant == 0 or T < 4 else (gcall(lambda: parent[1:]) if variant == 1 else gcall(lambda: parent[: T - 1]))
            if kind == 'MetricsFamily':
                return TrajectoryMetrics(gcall(sub.filter, 'Li'))
            tr = gcall(sub.transitions_between_sites, sitesys.sites(case), 'Li', site_radius=sitesys.radius_arg(case), site_inner_fraction=case['inner_fraction'], allow=(ValueError,))
            if isinstance(tr, Raised):
                raise Skip()
            j = gcall(Jumps, tr, allow=(ValueError,))
            if isinstance(j, Raised):
                raise Skip()
            return j
        if kind == 'Jumps' and (k // len(self.systems)) % 2 == 1:
            # the same system with its sites listed in reverse order (an equal *set* of sites, another object with another site numbering)
            case = dict(case, sites={'frac': case['sites']['frac'][::-1], 'labels': case['sites']['labels'][::-1],
                                     'image_shift': (case['sites'].get('image_shift') or [[0, 0, 0]] * len(case['sites']['frac']))[::-1]})
        traj = sitesys.full_trajectory(case)
        if kind == 'Trajectory':
            return traj
        if kind == 'TrajectoryMetrics':
            return TrajectoryMetrics(traj.filter('Li'))
        tr = gcall(traj.transitions_between_sites, sitesys.sites(case), 'Li', site_radius=sitesys.radius_arg(case), site_inner_fraction=case['inner_fraction'])
        if kind == 'Transitions':
            return tr
        if kind == 'JumpsShared':
            # several Jumps objects with different settings over ONE shared Transitions object whose history is residence-sensitive
            if 'h' not in self.shared:
                self.shared['h'] = history_transitions(self.histories[0])
            # ... and with different user-supplied conversion methods (default / two closures of one factory / a functools.partial)
            ckw = {'conversion_method': make_conversion((k // 3) % 4)} if (k // 3) % 4 else {}
            j = gcall(Jumps, history_transitions(self.histories[0]) if pristine else self.shared['h'], minimal_residence=[0, self.histories[0]['residences'][1], 1][k % 3], **ckw, allow=(ValueError,))
            if isinstance(j, Raised):
                raise Skip()
            return j
        j = gcall(Jumps, tr, allow=(ValueError,))
        if isinstance(j, Raised):
            raise Skip()
        if kind == 'Jumps':
            return j
        from gemdat.collective import Collective

        return gcall(Collective, jumps=j, sites=j.sites, lattice=j.trajectory.get_lattice(), max_steps=3, max_dist=2.0)

    def _new(self, k, kind):
        o = self.build(k, kind)
        h = self.next
        self.next += 1
        if id(o) in self.dead_ids:
            self.flags['id_reuse'] += 1
        self.live[h] = (kind, k, o)
        if kind.endswith('Family'):
            self.flags['family'] += 1
        self.flags['kinds'].add(kind)
        return h

    def _call(self, h, m, ai):
        kind, k, o = self.live[h]
        name, arglist = METHODS[kind][m % len(METHODS[kind])]
        args = arglist[ai % len(arglist)]
        a, kw = (args, {}) if isinstance(args, tuple) else ((), args)
        meth = getattr(o, name)
        if name == 'to_graph' and kw:
            gcall(meth, allow=(ValueError, ZeroDivisionError, IndexError, KeyError))  # the unrestricted graph first
        if (m + ai) % 3 == 0:
            # every other argument set of this method first: an entry made for other arguments must never answer this call
            for other in arglist:
                if other is not args:
                    oa, okw = (other, {}) if isinstance(other, tuple) else ((), other)
                    gcall(meth, *oa, **okw, allow=(ValueError, ZeroDivisionError, IndexError, KeyError))
        got = gcall(meth, *a, **kw, allow=(ValueError, ZeroDivisionError, IndexError, KeyError))
        got2 = gcall(meth, *a, **kw, allow=(ValueError, ZeroDivisionError, IndexError, KeyError))
        self.cached.add(h)
        if kind == 'Trajectory':
            # analysis entry points of the trajectory itself: exercised (through the returned metrics object as well) so that
            # any memoisation behind them is populated; what is checked for them is that the trajectory can still die
            if name == 'metrics':
                gcall(got.tracer_diffusivity, dimensions=3)
                gcall(got.speed)
            wrapped = getattr(getattr(type(o), name), '__wrapped__', None)
            if wrapped is None or name == 'metrics':
                return name
        ALLOW = (ValueError, ZeroDivisionError, IndexError, KeyError)
        # a pristine twin: the same object derived again from the raw arrays, sharing nothing with any object of this history, asked once
        if kind != 'Trajectory' and (m + ai) % 2 == 0:
            twin = self.build(k, kind, pristine=True)
            tm = getattr(type(twin), name)
            tv = gcall(getattr(tm, '__wrapped__', tm), twin, *a, **kw, allow=ALLOW)
            if not deep_equal(got, tv, rtol=1e-7, arel=1e-9):
                raise Violation('value-belongs-to-this-object', f'{kind}.{name}{args} differs from the value a pristine twin gives (the same object derived again from the raw data, sharing nothing with the objects of this history; system {k}, {len(self.live)} live objects)')
            del twin, tv
        if name == 'to_graph' and not isinstance(got, Raised) and not kw and not a:
            # bounds that sit exactly on an edge's activation energy and one representable number beside it: two different arguments,
            # two different graphs - an entry made for one must never answer the other
            es = sorted({float(d_['e_act']) for _, _, d_ in got.edges(data=True) if np.isfinite(d_['e_act']) and d_['e_act'] != 0})
            if es:
                e0 = es[(m + ai) % len(es)]
                for bound in (e0, float(np.nextafter(e0, -np.inf)), float(np.nextafter(e0, np.inf)), e0):
                    for key_ in ('max_e_act', 'min_e_act'):
                        gc_ = gcall(meth, **{key_: bound}, allow=ALLOW)
                        gu_ = gcall(getattr(type(o), name).__wrapped__, o, **{key_: bound}, allow=ALLOW)
                        if not deep_equal(gc_, gu_):
                            raise Violation('cached-equals-uncached', f'{kind}.to_graph({key_}={bound!r}) (an edge has activation energy {e0!r}): cached graph differs from an uncached recomputation; edges {sorted(gc_.edges) if hasattr(gc_, "edges") else gc_} vs {sorted(gu_.edges) if hasattr(gu_, "edges") else gu_}')
        if name == 'jump_diffusivity' and not isinstance(got, Raised):
            # independent of every cache in the library: the defining formula on this object's own table and sites
            Mx = np.array(o.trajectory.get_lattice().matrix, float)
            sfx = np.array(o.sites.frac_coords, float)
            Dx = oracle.min_image_dist(sfx, sfx, Mx)
            rows = list(zip(o.data['start site'], o.data['destination site']))
            wantd = sum(float(Dx[int(i_), int(j_)]) ** 2 for i_, j_ in rows) * oracle.ANGSTROM**2 / (2 * a[0] * len(o.trajectory.species) * len(o.trajectory) * o.trajectory.time_step)
            if abs(float(got) - wantd) > 1e-9 * max(abs(wantd), 1e-300):
                raise Violation('value-belongs-to-this-object', f'{kind}.jump_diffusivity{args} = {float(got)!r}, the defining formula on this object\'s own jumps and sites gives {wantd!r} (system {k}, {len(self.live)} live objects)')
        if getattr(getattr(type(o), name), '__wrapped__', None) is None:
            if not deep_equal(got, got2):
                raise Violation('repeated-call-same-value', f'{kind}.{name}{args}: two consecutive calls differ')
            return name
        unc = gcall(getattr(type(o), name).__wrapped__, o, *a, **kw, allow=ALLOW)
        if name == 'rates' and not isinstance(got, Raised):
            own = own_rates(o, *a)
            if own is not None and not deep_equal(got, own):
                raise Violation('value-belongs-to-this-object', f'Jumps.rates{args} differs from the rates of this object\'s own time parts (transitions split and classified independently)')
        if not deep_equal(got, unc) or not deep_equal(got2, unc):
            raise Violation('cached-equals-uncached', f'{kind}.{name}{args}: cached value differs from an uncached recomputation on the same object (system {k}; {len(self.live)} live objects; id reuse so far {self.flags["id_reuse"]})')
        # a fresh twin built from the same system must give the same value too (nothing leaked in from another object)
        return name

    def _drop(self, h):
        kind, k, o = self.live.pop(h)
        r = weakref.ref(o)
        i = id(o)
        had = h in self.cached
        del o
        if r() is not None:
            gc.collect()
        if r() is not None:
            raise Violation('caching-does-not-keep-object-alive', f'{kind} object (cache entries: {had}) is still alive after its last reference was dropped and gc.collect(); referrers: {[type(x).__name__ for x in gc.get_referrers(r())][:4]}')
        if had:
            self.dead_ids.add(i)

    def apply(self, op):
        k = op['op']
        if k == 'init':
            self.systems = op['systems']
            self.histories = op.get('histories', [])
            return
        if not self.systems:
            raise Skip()
        if k == 'new':
            self._new(op['k'], op['kind'])
        elif k == 'pair':
            # two live objects that differ only in their settings / system, queried with the same method and arguments
            h1 = self._new(op['k'], op['kind'])
            # (family kinds: the same system, another slice of the same shared parent trajectory)
            # (JumpsShared: another minimal residence (k + 1) or the same residence with another conversion method (k + 3))
            # (Jumps: another system (k + 1) or the same system with its sites listed in reverse order (k + number of systems))
            h2 = self._new(op['k'] + (len(self.systems) if op['kind'].endswith('Family') or (op['kind'] == 'Jumps' and op['a'] % 2) else (3 if op['kind'] == 'JumpsShared' and op['a'] % 2 else 1)), op['kind'])
            for h in (h1, h2, h1):
                self._call(h, op['m'], op['a'])
        elif k == 'burst':
            hs = [self._new(op['k'], 'TrajectoryMetrics') for _ in range(op['n'])]
            for h in hs:
                self._call(h, 1, 0)
            if len(self.live) > 128:
                self.flags['eviction'] = True
            self._call(hs[0], 1, 0)
            for h in hs[1:]:
                self._drop(h)
        elif not self.live:
            raise Skip()
        else:
            hs = sorted(self.live)
            h = hs[op['i'] % len(hs)]
            if k == 'call':
                self._call(h, op['m'], op['a'])
            elif k == 'drop':
                self._drop(h)
            elif k == 'drop-create':
                kind = self.live[h][0]  # (do not bind the object itself: a local would keep it alive)
                self._drop(h)
                h2 = self._new(op['k'], kind)
                self._call(h2, op['m'], op['a'])

    def finish(self):
        for h in sorted(self.live):
            self._drop(h)
        self.shared.clear()
        self.parents.clear()
        n = census()
        if n > self.census0:
            kinds = collections.Counter(type(o).__name__ for o in gc.get_objects() if type(o).__name__ in ANALYSIS_CLASSES and type(o).__module__.startswith('gemdat'))
            raise Violation('caching-does-not-keep-object-alive', f'{n - self.census0} analysis objects created during this history (including temporaries made inside the library) are still alive after every reference was dropped and gc.collect(); live now: {dict(kinds)}')

    def info(self):
        labels = sorted(self.flags['kinds'])
        if self.flags['family'] >= 2:
            labels.append('siblings-from-one-parent')
        if self.flags['id_reuse']:
            labels.append('address-reused-by-new-object')
        if self.flags['eviction']:
            labels.append('more-than-128-live-objects')
        return {'nontrivial': bool(self.flags['id_reuse'] or self.flags['eviction']), 'labels': labels}

    @initialize(history=st.deferred(lambda: __import__('pbt.props.c19', fromlist=['x']).jump_split_cases('quick')), systems=st.lists(gen.hop_systems(min_sites=3, max_sites=5, max_diff=2, max_frames=10, radius_modes=('float',)), min_size=2, max_size=3))
    def r_init(self, systems, history):
        ok = []
        for c in systems:
            want, _ = sitesys.expected_states(c)
            st_ = np.diff(np.array(c['diff'], float), axis=0)
            tie = bool(st_.size and np.any(np.abs(np.abs(st_ - np.round(st_)) - 0.5) < 1e-6))
            # (a per-frame step of exactly half a cell is a genuine minimum-image tie: the attempt frequency, and every value built on it, may then
            # differ between two evaluations of the same trajectory - such systems are not used, as in C05 / C07)
            if not (want == -2).any() and (want[1:] != want[:-1]).any() and not tie:
                ok.append(c)
        self.step({'op': 'init', 'systems': ok, 'histories': [history]})

    @rule(k=st.integers(0, 11), kind=st.sampled_from(['Transitions', 'Jumps', 'Jumps', 'JumpsShared', 'JumpsShared', 'TrajectoryMetrics', 'Collective', 'Trajectory', 'JumpsFamily', 'JumpsFamily', 'MetricsFamily']))
    def r_new(self, k, kind):
        self.step({'op': 'new', 'k': k, 'kind': kind})

    @rule(i=st.integers(0, 30), m=st.integers(0, 12), a=st.integers(0, 7))
    def r_call(self, i, m, a):
        self.step({'op': 'call', 'i': i, 'm': m, 'a': a})

    @rule(i=st.integers(0, 30))
    def r_drop(self, i):
        self.step({'op': 'drop', 'i': i})

    @rule(i=st.integers(0, 30), k=st.integers(0, 5), m=st.integers(0, 12), a=st.integers(0, 7))
    def r_drop_create(self, i, k, m, a):
        self.step({'op': 'drop-create', 'i': i, 'k': k, 'm': m, 'a': a})

    @rule(k=st.integers(0, 11), kind=st.sampled_from(['JumpsShared', 'JumpsShared', 'Jumps', 'Transitions', 'JumpsFamily', 'JumpsFamily', 'MetricsFamily']), m=st.sampled_from([0, 1, 2, 3, 3, 5]), a=st.integers(0, 7))
    def r_pair(self, k, kind, m, a):
        self.step({'op': 'pair', 'k': k, 'kind': kind, 'm': m, 'a': a})

    @rule(k=st.integers(0, 5), n=st.sampled_from([3, 135]))
    def r_burst(self, k, n):
        self.step({'op': 'burst', 'k': k, 'n': n})


_skip_safe(RealMachine)


def run_threads(case):
    """best-effort concurrency stress (the schedule is the interpreter's, not ours): several threads create, query and drop
    objects of the synthetic class at a very short switch interval; every value must still carry its own object's payload"""
    import sys
    import threading

    Obj = synthetic_class()
    errors = []
    shared = [Obj(10_000 + k) for k in range(case['shared'])]
    old = sys.getswitchinterval()
    sys.setswitchinterval(1e-6)

    def worker(tid, ops):
        local = []
        try:
            for k, (op, a) in enumerate(ops):
                if op == 'new' or not local:
                    local.append(Obj(tid * 1_000_000 + k))
                elif op == 'drop':
                    local.pop()
                elif op == 'shared':
                    o = shared[a % len(shared)]
                    if o.f(a, b=tid % 3) != (o.payload, 'f', a, tid % 3):
                        errors.append(('shared', tid, k))
                else:
                    o = local[a % len(local)]
                    if o.f(a) != (o.payload, 'f', a, 1) or o.g(a) != [o.payload, 'g', a] or o.me()['payload'] != o.payload:
                        errors.append(('local', tid, k))
        except Exception as e:  # noqa: BLE001
            errors.append(('exception', tid, repr(e)))

    threads = [threading.Thread(target=worker, args=(t, ops)) for t, ops in enumerate(case['threads'])]
    try:
        for t in threads:
            t.start()
        for t in threads:
            t.join()
    finally:
        sys.setswitchinterval(old)
    if errors:
        raise Violation('value-belongs-to-this-object-under-threads', f'{errors[:3]} ({len(errors)} in total)')
    return {'nontrivial': len(case['threads']) >= 2, 'labels': [f'threads={len(case["threads"])}']}


@st.composite
def thread_cases(draw, tier):
    n = draw(st.integers(2, 8))
    ops = st.lists(st.tuples(st.sampled_from(['new', 'call', 'call', 'call', 'shared', 'shared', 'drop']), st.integers(0, 6)).map(list), min_size=20, max_size=200)
    return {'shared': draw(st.integers(1, 4)), 'threads': [draw(ops) for _ in range(n)]}


def run_dec(case):
    return replay_log(DecoratorMachine, case['log'])


def run_real(case):
    return replay_log(RealMachine, case['log'])


SUBS = [
    Sub(name='decorator', kind='machine', run=run_dec, machine=lambda tier: DecoratorMachine,
        rule='RuleBasedStateMachine on a synthetic class with three weak_lru_cache methods (default size, maxsize=4, mutable result): create / call(args, kwargs) / drop / gc / drop-then-create (address reuse measured via id) / bursts of 130-200 objects; every value must carry this object\'s payload and equal __wrapped__; dropped objects must die',
        n={'quick': 25, 'thorough': 400}, shards={'quick': 8, 'thorough': 16}, steps={'quick': 40, 'thorough': 60}),
    Sub(name='analysis-objects', kind='machine', run=run_real, machine=lambda tier: RealMachine,
        rule='RuleBasedStateMachine on real Trajectory / Transitions / Jumps / TrajectoryMetrics / Collective objects built from 2-3 generated systems: every cached method with varying arguments vs method.__wrapped__ and (every second call) vs a pristine twin derived again from the raw arrays; non-memoised analysis entry points (occupancy, atom_locations, activation_energy_between_sites) as well; sibling objects derived from one shared parent trajectory (whole run / slices); Jumps objects over one shared Transitions that differ in minimal residence or in a user-supplied conversion_method (closures of one factory, functools.partial); before every third compared call all sibling argument sets of the method (negative integers included) are called first; drop + gc (weakref must be dead), drop-then-create, bursts of 135 metrics objects; census of live gemdat analysis objects before / after each history (temporaries made inside the library must die too)',
        n={'quick': 10, 'thorough': 120}, shards={'quick': 12, 'thorough': 16}, steps={'quick': 25, 'thorough': 40}),
    Sub(name='threads-stress', kind='hyp', run=run_threads, strategy=thread_cases,
        rule='best effort, not schedule-controlled: 2-8 threads at a 1 microsecond switch interval create / query (shared and private objects) / drop objects of the synthetic cached class; every value must carry its own object payload',
        n={'quick': 5, 'thorough': 150}, shards={'quick': 4, 'thorough': 16}),
]
