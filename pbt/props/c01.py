"""C01  Periodic positions/displacements are exact, wrapped, lattice-shift invariant."""
from __future__ import annotations

import numpy as np
from hypothesis import strategies as st

from .. import cases, gen, oracle
from ..runner import Sub, Violation, gcall

PROPERTY = 'C01'
LEVEL = 'exploration'
RULE = ('cases are periodic trajectories (lattice, species, coordinate array); non-trivial = >=2 frames and at least one '
        'coordinate outside [0,1) or within 1e-9 of a cell face, for the invariance sub-check additionally a non-zero '
        'integer shift and at least one face crossing')
ASSUMPTIONS = [
    'for the shift-invariance clauses every step component is < 1/2 - 1e-6 in magnitude (|step| = 1/2 is a genuine tie of the minimum image)',
    'tolerances: circular 1e-12 for positions vs input, 1e-9 after a representation round trip, rtol 1e-9 / atol 1e-9 for derived quantities',
]
TOL_DIRECT = 1e-12
TOL_TRIP = 1e-9


def _traj(case, coords):
    return cases.trajectory(coords, case['symbols'], case['lattice']['matrix'], case['time_step'], case['temperature'], case['species_kind'])


def check_positions(pos, inp, where, tol):
    pos = np.asarray(pos)
    if pos.shape != np.shape(inp):
        raise Violation('positions-shape', f'{where}: {pos.shape} vs {np.shape(inp)}')
    if not np.all(np.isfinite(pos)):
        raise Violation('positions-finite', where)
    if pos.min() < 0 or pos.max() >= 1:
        bad = np.argwhere((pos < 0) | (pos >= 1))[0]
        raise Violation('positions-in-unit-cell', f'{where}: positions{tuple(bad)}={pos[tuple(bad)]!r} for input {np.asarray(inp)[tuple(bad)]!r} is outside [0,1)')
    err = oracle.circ_diff(pos, inp)
    if err.max() > tol:
        bad = np.unravel_index(np.argmax(err), err.shape)
        raise Violation('positions-equal-input-mod-1', f'{where}: positions{bad}={pos[bad]!r} input {np.asarray(inp)[bad]!r} differ by {err[bad]:.3e} (mod 1)')


def run_wrap(case):
    inp = np.array(case['coords'], float)
    T, N, _ = inp.shape
    t = _traj(case, inp)
    for k in range(2):
        pos = gcall(lambda: t.positions)
        check_positions(pos, inp, f'access {k}', TOL_DIRECT)
    disp = np.array(gcall(lambda: t.displacements))
    if disp.shape != inp.shape:
        raise Violation('displacements-shape', f'{disp.shape}')
    if np.any(disp[0] != 0):
        raise Violation('displacements-first-frame-zero', f'{disp[0].tolist()}')
    if np.abs(disp).max() > 0.5:
        raise Violation('displacements-minimum-image', f'component {np.abs(disp).max()!r} exceeds 1/2')
    if T > 1:
        d = inp[1:] - inp[:-1]
        err = oracle.circ_diff(disp[1:], d)
        if err.max() > TOL_TRIP:
            raise Violation('displacements-equal-frame-difference-mod-1', f'max deviation {err.max():.3e}')
    recon = inp[0][None] + np.cumsum(disp, axis=0)
    err = oracle.circ_diff(recon, inp)
    if err.max() > TOL_TRIP:
        raise Violation('running-sum-reproduces-frames', f'max deviation {err.max():.3e}')
    # cumulative_displacements (public) is that running sum
    cum = np.array(gcall(lambda: t.cumulative_displacements))
    if np.abs(cum - np.cumsum(disp, axis=0)).max() > 1e-12:
        raise Violation('cumulative-displacements-is-running-sum', '')
    # back to positions after the representation switch, twice
    for k in range(2):
        pos = gcall(lambda: t.positions)
        check_positions(pos, inp, f'after displacement round trip {k}', TOL_TRIP)
    # read-only derivations must leave the positions equal to the input as well
    gcall(t.apply_drift_correction)
    gcall(t.mean_squared_displacement)
    gcall(t.center_of_mass)
    check_positions(gcall(lambda: t.positions), inp, 'after drift correction / msd / centre of mass', TOL_TRIP)
    # a frame range of a periodic trajectory is a periodic trajectory: same clauses, whichever representation the source was in
    if T >= 3:
        k = 1 + (int(abs(inp[0, 0, 0]) * 1e6) % (T - 2))
        gcall(lambda: t.displacements)
        sl = gcall(lambda: t[k:])
        check_positions(gcall(lambda: sl.positions), inp[k:], f'slice [{k}:] taken in displacement representation', TOL_TRIP)
        d2 = np.array(gcall(lambda: sl.displacements))
        if np.any(d2[0] != 0) or oracle.circ_diff(inp[k][None] + np.cumsum(d2, axis=0), inp[k:]).max() > TOL_TRIP:
            raise Violation('running-sum-reproduces-frames', f'slice [{k}:]')
        check_positions(gcall(lambda: sl.positions), inp[k:], f'slice [{k}:] after its own displacement round trip', TOL_TRIP)
        check_positions(gcall(lambda: t.positions), inp, 'source after slicing', TOL_TRIP)
    # volume path relies on 0 <= positions < 1
    res = float(min(np.linalg.norm(v) for v in np.array(case['lattice']['matrix']))) / 2.5
    vol = gcall(t.to_volume, resolution=res, clause='to_volume-accepts-positions')
    if int(vol.data.sum()) != T * N:
        raise Violation('to_volume-counts-all-positions', f'{int(vol.data.sum())} != {T * N}')
    on_face = bool(np.any(np.minimum(np.abs(inp - np.round(inp)), 1) < 1e-9))
    outside = bool(np.any((inp < 0) | (inp >= 1)))
    labels = [case['lattice']['family'], 'orient-' + case['lattice']['orient']]
    if on_face:
        labels.append('coordinate-on-or-near-face')
    if outside:
        labels.append('coordinate-outside-unit-cell')
    if np.any((inp < 0) & (inp > -1e-12)):
        labels.append('tiny-negative-coordinate')
    return {'nontrivial': T >= 2 and (on_face or outside), 'labels': labels}


def run_shift(case):
    path = np.array(case['path'], float)
    T, N, _ = path.shape
    M = np.array(case['lattice']['matrix'], float)
    shift = np.array(case['shift'], float)
    form = case['form']
    if form == 'wrapped':
        a_in = path - np.floor(path)
    else:
        a_in = path
    b_in = a_in + shift
    if form == 'displacements':
        # the documented alternative input: per-frame displacements + base positions (what apply_drift_correction builds);
        # the second trajectory starts from a lattice-shifted base
        steps = np.concatenate([np.zeros_like(path[:1]), np.diff(path, axis=0)], axis=0)
        ta = cases.trajectory(steps, case['symbols'], M, case['time_step'], case['temperature'], case['species_kind'], coords_are_displacement=True, base_positions=path[0] - np.floor(path[0]))
        tb = cases.trajectory(steps, case['symbols'], M, case['time_step'], case['temperature'], case['species_kind'], coords_are_displacement=True, base_positions=path[0] + shift[0])
    else:
        ta, tb = _traj(case, a_in), _traj(case, b_in)
    dims = case.get('dimensions', 3)

    def bundle(t):
        out = {}
        out['cumulative_displacements'] = np.array(gcall(lambda: t.cumulative_displacements))
        out['distances_from_base_position'] = np.array(gcall(t.distances_from_base_position))
        out['mean_squared_displacement'] = np.array(gcall(t.mean_squared_displacement))
        m = gcall(t.metrics)
        out['tracer_diffusivity'] = np.array(float(gcall(m.tracer_diffusivity, dimensions=dims)))
        out['speed'] = np.array(gcall(m.speed))
        com = gcall(t.center_of_mass)
        out['center_of_mass_displacement'] = np.array(gcall(lambda: com.cumulative_displacements))
        return out

    A, B = bundle(ta), bundle(tb)
    want_cum = path - path[0][None]
    want_dist = np.linalg.norm(want_cum @ M, axis=-1).T
    scale = {k: max(1.0, float(np.abs(v).max())) for k, v in A.items()}
    for k in A:
        if A[k].shape != B[k].shape:
            raise Violation('shift-invariance', f'{k}: shapes differ {A[k].shape} vs {B[k].shape}')
        # diffusivity: relative to the diffusivity of one squared cell edge over the run (a static atom gives pure round-off)
        tol = 1e-9 * scale[k] if k != 'tracer_diffusivity' else 1e-9 * max(abs(float(A[k])), float(np.sum(M * M, axis=1).max()) * 1e-20 / (2 * dims * T * case['time_step']))
        if np.abs(A[k] - B[k]).max() > tol:
            raise Violation('shift-invariance', f'{k} changes by {np.abs(A[k] - B[k]).max():.3e} when coordinates are shifted by whole lattice vectors (form={form})')
    if np.abs(A['cumulative_displacements'] - want_cum).max() > 1e-9 * scale['cumulative_displacements']:
        raise Violation('cumulative-displacement-equals-unwrapped-path', f"max deviation {np.abs(A['cumulative_displacements'] - want_cum).max():.3e}")
    if np.abs(A['distances_from_base_position'] - want_dist).max() > 1e-9 * max(1.0, want_dist.max()):
        raise Violation('distance-equals-cartesian-length', f"max deviation {np.abs(A['distances_from_base_position'] - want_dist).max():.3e}")
    crossings = int(np.sum(np.floor(path[1:]) != np.floor(path[:-1])))
    labels = [case['lattice']['family'], 'orient-' + case['lattice']['orient'], 'form-' + form]
    if crossings:
        labels.append('face-crossing')
    return {'nontrivial': T >= 2 and bool(np.any(shift != 0)) and crossings > 0, 'labels': labels}


# ----------------------------------------------------------------------------- strategies
def _coord():
    base = st.floats(-3, 4)
    sp = st.sampled_from(gen.FACE_SPECIALS)
    spk = st.builds(lambda s, k: s + k, sp, st.integers(-3, 3))
    return st.one_of(st.floats(0, 1), base, sp, spk)


@st.composite
def wrap_cases(draw, tier):
    big = tier == 'thorough'
    lat = draw(gen.lattices())
    T = draw(st.integers(1, 40 if big else 12))
    N = draw(st.integers(1, 8 if big else 4))
    flat = draw(st.lists(_coord(), min_size=T * N * 3, max_size=T * N * 3))
    return {
        'lattice': lat,
        'symbols': draw(gen.species_lists(N)),
        'species_kind': draw(st.sampled_from(['Species', 'Element'])),
        'coords': np.array(flat, float).reshape(T, N, 3).tolist(),
        'time_step': 1e-15,
        'temperature': 300.0,
    }


@st.composite
def shift_cases(draw, tier):
    big = tier == 'thorough'
    c = draw(gen.path_cases(max_frames=40 if big else 12, max_atoms=8 if big else 4, max_step=0.5 - 1e-6))
    shape = np.shape(c['path'])
    mode = draw(st.sampled_from(['per-coordinate', 'per-coordinate', 'per-frame', 'single', 'zero', 'far']))
    if mode == 'far':
        # whole lattice vectors far beyond the range of 16-bit cell counters (an unwrapped coordinate after a very long run)
        n = int(np.prod(shape))
        shift = np.array(draw(st.lists(st.sampled_from([0, 0, 32767, 32768, -32769, 40000, 65536, -65537, 100000]), min_size=n, max_size=n))).reshape(shape).tolist()
    elif mode == 'per-coordinate':
        shift = draw(gen.int_shifts(shape))
    elif mode == 'per-frame':
        s = np.array(draw(gen.int_shifts((shape[0], 1, 3))))
        shift = np.broadcast_to(s, shape).tolist()
    elif mode == 'single':
        shift = np.zeros(shape, int)
        idx = tuple(draw(st.integers(0, n - 1)) for n in shape)
        shift[idx] = draw(st.sampled_from([-3, -1, 1, 2]))
        shift = shift.tolist()
    else:
        shift = np.zeros(shape, int).tolist()
    c['shift'] = shift
    c['form'] = draw(st.sampled_from(['wrapped', 'unwrapped', 'displacements']))
    c['dimensions'] = draw(st.sampled_from([1, 2, 3]))
    return c


# ----------------------------------------------------------------------------- long trajectories (size-dependent code paths)
def run_long(case):
    """10^3 - 10^5 frames: positions, displacements, running sum, cumulative displacements and distances at every frame (vectorised)"""
    T, N = case['frames'], case['atoms']
    M = np.array(case['lattice']['matrix'], float)
    t_ = np.arange(T, dtype=float).reshape(T, 1, 1)
    a_ = np.arange(1, N + 1, dtype=float).reshape(1, N, 1)
    v = np.array(case['velocity'], float).reshape(1, 1, 3)
    amp = np.array(case['amplitude'], float).reshape(1, 1, 3)
    # drift + oscillation + one hop: a pure function of the case; per component |step| <= 0.19 + 2 * 0.05 + 0.15 < 1/2
    path = np.array(case['x0'], float).reshape(1, N, 3) + t_ * v * a_ / N + amp * np.sin(t_ * a_ * case['omega']) + (t_ >= case['hop_at']) * 0.15
    form = case['form']
    shift = (np.floor(np.sin(t_ * 1.7 + a_) * 2.5)) if form == 'shifted' else 0.0  # whole lattice vectors, different in every frame
    inp = (path - np.floor(path)) + shift if form in ('wrapped', 'shifted') else path
    if form == 'displacements':
        steps = np.concatenate([np.zeros_like(path[:1]), np.diff(path, axis=0)], axis=0)
        t = cases.trajectory(steps, ['Li'] * N, M, 2e-15, 300.0, coords_are_displacement=True, base_positions=path[0] - np.floor(path[0]))
    else:
        t = cases.trajectory(inp, ['Li'] * N, M, 2e-15, 300.0)
    tol = 1e-9 * max(1.0, float(np.abs(path - path[:1]).max()))  # round-off of a running sum over T frames
    for op in case['order']:
        if op == 'positions':
            check_positions(gcall(lambda: t.positions), path, f'{T} frames ({form})', tol)
        elif op == 'displacements':
            disp = np.array(gcall(lambda: t.displacements))
            if disp.shape != path.shape or np.any(disp[0] != 0) or np.abs(disp).max() > 0.5:
                raise Violation('displacements-minimum-image', f'{T} frames: shape {disp.shape}, first frame {disp[0].tolist()}, largest component {np.abs(disp).max()!r}')
            err = np.abs(disp[1:] - np.diff(path, axis=0))
            if err.max() > 1e-9:
                k = np.unravel_index(np.argmax(err), err.shape)
                raise Violation('displacements-equal-frame-difference-mod-1', f'{T} frames ({form}): step into frame {k[0] + 1} of atom {k[1]} axis {k[2]} reported {disp[1:][k]!r}, frames differ by {np.diff(path, axis=0)[k]!r}')
            err = oracle.circ_diff(path[0][None] + np.cumsum(disp, axis=0), path)
            if err.max() > tol:
                raise Violation('running-sum-reproduces-frames', f'{T} frames ({form}): frame {int(np.argmax(err.max(axis=(1, 2))))} deviates by {err.max():.3e}')
        elif op == 'cumulative':
            cum = np.array(gcall(lambda: t.cumulative_displacements))
            err = np.abs(cum - (path - path[:1]))
            if cum.shape != path.shape or err.max() > tol:
                raise Violation('cumulative-displacement-equals-unwrapped-path', f'{T} frames ({form}): frame {int(np.argmax(err.max(axis=(1, 2))))} deviates by {err.max():.3e}')
        elif op == 'distances':
            dist = np.array(gcall(t.distances_from_base_position))
            wd = np.linalg.norm((path - path[:1]) @ M, axis=-1).T
            if dist.shape != wd.shape or np.abs(dist - wd).max() > 1e-8 * max(1.0, wd.max()):
                raise Violation('distance-equals-cartesian-length', f'{T} frames ({form}): max deviation {np.abs(dist - wd).max() if dist.shape == wd.shape else dist.shape}')
        elif op == 'slice':
            k = case['hop_at']
            sl = gcall(lambda: t[k:])
            check_positions(gcall(lambda: sl.positions), path[k:], f'slice [{k}:] of {T} frames ({form})', tol)
            cum = np.array(gcall(lambda: sl.cumulative_displacements))
            if np.abs(cum - (path[k:] - path[k:k + 1])).max() > tol:
                raise Violation('cumulative-displacement-equals-unwrapped-path', f'slice [{k}:] of {T} frames ({form})')
    return {'nontrivial': True, 'labels': [case['lattice']['family'], 'form-' + form, 'frames>65535' if T > 65535 else ('frames>8192' if T > 8192 else 'frames<=8192')]}


@st.composite
def long_cases(draw, tier):
    big = tier == 'thorough'
    near = [2**k + d for k in range(10, 18 if big else 17) for d in (-1, 0, 1)]
    T = draw(st.one_of(st.sampled_from(near), st.integers(1000, 300000 if big else 140000), st.sampled_from([10000, 20000, 50000, 100000, 100001])))
    N = draw(st.sampled_from([2, 1, 3]))
    return {'lattice': draw(gen.lattices()), 'frames': T, 'atoms': N,
            'x0': [[draw(st.sampled_from([0.0, 0.5, 0.97, 0.25, 1 - 1e-16])) for _ in range(3)] for _ in range(N)],
            'velocity': [draw(st.sampled_from([0.11, -0.07, 0.0, 0.0003, -0.19])) for _ in range(3)],
            'amplitude': [draw(st.sampled_from([0.05, 0.0, 0.02])) for _ in range(3)],
            'omega': draw(st.sampled_from([0.7, 0.013, 2.9])), 'hop_at': draw(st.integers(1, T - 1)),
            'form': draw(st.sampled_from(['wrapped', 'unwrapped', 'shifted', 'displacements'])),
            'order': draw(st.permutations(['positions', 'displacements', 'cumulative', 'distances', 'slice']))}


_SPECIAL_VALUES = sorted({sp + k for sp in gen.FACE_SPECIALS for k in (-2, -1, 0, 1, 3)})


def special_size(tier):
    return len(_SPECIAL_VALUES) ** 2


def special_case(tier, idx):
    n = len(_SPECIAL_VALUES)
    a, b = _SPECIAL_VALUES[idx % n], _SPECIAL_VALUES[idx // n]
    lat = {'family': 'triclinic', 'orient': 'lower', 'params': [5.0, 6.0, 7.0, 80.0, 95.0, 70.0], 'matrix': oracle.matrix_from_params_lower(5.0, 6.0, 7.0, 80.0, 95.0, 70.0).tolist()}
    # three frames so that the slice clause runs; the pair sits on every axis in turn
    coords = [[[a, b, a]], [[b, a, b]], [[a, a, b]]]
    return {'lattice': lat, 'symbols': ['Li'], 'species_kind': 'Species', 'coords': coords, 'time_step': 1e-15, 'temperature': 300.0}


SUBS = [
    Sub(name='wrap', kind='hyp', run=run_wrap, strategy=wrap_cases,
        rule='arbitrary coordinates in [-3,4] with face specials (0, 1, -1e-17, 1-1e-16, 2^-60, k/n, special+integer) in all lattices; positions in [0,1), equal input mod 1, displacement/positions round trip',
        n={'quick': 500, 'thorough': 6000}, shards={'quick': 6, 'thorough': 16}),
    Sub(name='shift', kind='hyp', run=run_shift, strategy=shift_cases,
        rule='unwrapped paths with |step| < 1/2 given wrapped or unwrapped, compared with the same trajectory plus integer lattice shifts (per coordinate / per frame / single); cumulative displacements, distances, MSD, diffusivity, speed, centre of mass',
        n={'quick': 300, 'thorough': 4000}, shards={'quick': 6, 'thorough': 16}),
    Sub(name='enum-face-specials', kind='enum', run=run_wrap, size=special_size, case_at=special_case, exhaustive=True,
        rule='complete enumeration: every ordered pair of the face-special coordinates (0, 1, -1e-17, 1e-17, 1-1e-16, 1-2^-53, +-2^-60, 0.5, k/n, each also shifted by -2, -1, 1, 3 cells) as consecutive frames of one atom in a triclinic cell',
        shards={'quick': 16, 'thorough': 16}),
    Sub(name='long-trajectories', kind='hyp', shrink=False, run=run_long, strategy=long_cases,
        rule='1 000 - 140 000 (300 000) frames (every power of two from 2^10 to 2^16 (2^17) and its neighbours, round numbers, arbitrary lengths) x 1-3 atoms in all lattices, drift + oscillation + one hop with hundreds of face crossings, given wrapped / unwrapped / shifted by other lattice vectors in every frame / as displacements: positions, per-step displacements, running sum, cumulative displacements, distances and a late slice checked at every frame in a generated order of queries (size-dependent code paths)',
        n={'quick': 4, 'thorough': 20}, shards={'quick': 8, 'thorough': 16}),
    Sub(name='api-histories', kind='machine', run=lambda case: __import__('pbt.props.c15', fromlist=['run_log']).run_log(case),
        machine=lambda tier: __import__('pbt.props.c15', fromlist=['TrajMachine']).TrajMachine,
        rule='call histories (the state machine shared with C15) run for this property: a pool of live trajectories under read-only queries, filter, slices, split and in-place extend; after every step the positions lie in [0,1) and equal the reference model modulo 1 and displacements / cumulative displacements / distances equal the model, so values that go stale after extend or are altered by another call are found',
        n={'quick': 15, 'thorough': 300}, shards={'quick': 8, 'thorough': 16}, steps={'quick': 30, 'thorough': 50}),
]
