"""C16  Trajectory caching is faithful and survives an interrupted cache write (fault enumeration)."""
from __future__ import annotations

import atexit
import os
import shutil
import tempfile

import numpy as np
from hypothesis import strategies as st
from hypothesis.stateful import initialize, rule

from .. import cases, gen, mdfiles
from ..runner import Raised, Skip, Sub, Violation, gcall, log_machine_base, quiet, replay_log

PROPERTY = 'C16'
LEVEL = 'fault_enumeration'
RULE = ('source files (LAMMPS data+xyz, vasprun.xml, GROMACS gro+xtc) are generated into a fresh temporary directory; faults on the cache file = every prefix length '
        '(complete enumeration for one file set per loader), empty file, zero fill, text, bytes starting with an invalid pickle opcode, deletion; '
        'non-trivial = a fault that leaves a damaged, non-empty cache (0 < k < len) or a history with at least two fault/recover cycles')
ASSUMPTIONS = [
    'an interrupted cache write is modelled by a prefix of the complete cache file (the write is one sequential pickle.dump)',
    'mutated-but-still-loadable pickles are not generated (pickle has no checksum; that is outside "unreadable")',
    'the reference is the same loader call in a directory without any cache file; outcomes that raise are compared by exception type',
]
_TMP = []


def _cleanup():
    for d in _TMP:
        shutil.rmtree(d, ignore_errors=True)


atexit.register(_cleanup)


def tmpdir():
    d = tempfile.mkdtemp(prefix='c16_')
    _TMP.append(d)
    return d


# ----------------------------------------------------------------------------- equality
def traj_equal(a, b, where):
    if isinstance(a, Raised) or isinstance(b, Raised):
        ta = type(a.exc).__name__ if isinstance(a, Raised) else 'trajectory'
        tb = type(b.exc).__name__ if isinstance(b, Raised) else 'trajectory'
        if ta != tb:
            raise Violation('same-outcome-as-parsing-the-sources', f'{where}: got {ta}, parsing the source files with the same arguments gives {tb}')
        return
    # the stored state first (reading .positions re-wraps and switches representation, which would hide differences)
    if a.coords_are_displacement != b.coords_are_displacement:
        raise Violation('representation-identical', f'{where}: coords_are_displacement {a.coords_are_displacement} vs {b.coords_are_displacement}')
    ca, cb = np.asarray(a.coords), np.asarray(b.coords)
    if ca.shape != cb.shape or not np.array_equal(ca, cb):
        raise Violation('stored-coordinates-identical', f'{where}: stored coordinates differ' + ('' if ca.shape != cb.shape else f' by up to {np.abs(ca - cb).max():.3e}'))
    pa, pb = np.asarray(a.positions), np.asarray(b.positions)
    if pa.shape != pb.shape or not np.array_equal(pa, pb):
        raise Violation('positions-identical', f'{where}: shapes {pa.shape} vs {pb.shape}' + ('' if pa.shape != pb.shape else f', max difference {np.abs(pa - pb).max():.3e}'))
    if [str(s) for s in a.species] != [str(s) for s in b.species]:
        raise Violation('species-identical', f'{where}: {a.species} vs {b.species}')
    if a.constant_lattice != b.constant_lattice or not np.array_equal(np.asarray(a.lattice), np.asarray(b.lattice)):
        raise Violation('lattice-identical', f'{where}: constant_lattice {a.constant_lattice} vs {b.constant_lattice}')
    if a.time_step != b.time_step:
        raise Violation('time-step-identical', f'{where}: {a.time_step} vs {b.time_step}')
    if a.metadata != b.metadata:
        raise Violation('metadata-identical', f'{where}: {a.metadata} vs {b.metadata}')
    if (a.site_properties is None) != (b.site_properties is None) or (a.site_properties is not None and repr(a.site_properties) != repr(b.site_properties)):
        raise Violation('site-properties-identical', where)


# ----------------------------------------------------------------------------- file sets and loader calls
def write_files(spec, d):
    L = spec['loader']
    if L == 'lammps':
        return mdfiles.write_lammps(d, spec['matrix'], spec['symbols'], spec['frames'], numeric_types=spec.get('numeric_types', False))
    if L == 'vasprun':
        return mdfiles.write_vasprun(d, spec['matrix'], spec['symbols'], spec['frames'], potim=spec.get('potim', 2.0), tebeg=spec.get('temperature', 300.0))
    return mdfiles.write_gromacs(d, spec['lengths'], spec['symbols'], spec['frames'])


VARIANTS = {
    'lammps': ['base', 'type_mapping_b', 'temperature', 'time_step', 'constant_lattice_false', 'atom_style_charge', 'coords_format_upper', 'temperature_close', 'time_step_close', 'numbers_as_int'],
    'vasprun': ['base', 'constant_lattice_false', 'tolerant_xml'],
    'gromacs': ['base', 'temperature', 'constant_lattice_false', 'temperature_close'],
}
# variants whose parse differs from 'base' (result or outcome) and which therefore must not share its cache
DIFFERENT_PARSE = {'lammps': {'type_mapping_b', 'temperature', 'time_step', 'constant_lattice_false', 'temperature_close', 'time_step_close'}, 'vasprun': {'constant_lattice_false'},
                   'gromacs': {'temperature', 'constant_lattice_false', 'temperature_close'}}


def call(spec, files, variant, cache=None, args_only=False):
    from gemdat.trajectory import Trajectory

    L = spec['loader']
    kw = {}
    if cache is not None:
        kw['cache'] = cache
    if L == 'lammps':
        tm = None
        if spec.get('numeric_types'):
            tm = dict(files['types'])
            if variant == 'type_mapping_b':
                tm = {k: {'Li': 'Na', 'S': 'O', 'P': 'Si'}.get(v, 'Li') for k, v in tm.items()}
        elif variant == 'type_mapping_b':
            tm = {s: 'Na' for s in spec['symbols']}  # names that are not numeric types: mapping is consulted per type string
        args = dict(coords_file=files['coords_file'], data_file=files['data_file'], temperature=spec.get('temperature', 300.0), time_step=spec.get('time_step', 2.0), type_mapping=tm)
        if variant == 'temperature':
            args['temperature'] = args['temperature'] + 100
        if variant == 'time_step':
            args['time_step'] = args['time_step'] * 2
        if variant == 'temperature_close':  # numeric options that differ only slightly are still different options
            args['temperature'] = args['temperature'] + 0.0004
        if variant == 'time_step_close':
            args['time_step'] = args['time_step'] + 0.0002
        if variant == 'numbers_as_int' and float(args['temperature']).is_integer() and float(args['time_step']).is_integer():
            args['temperature'], args['time_step'] = int(args['temperature']), int(args['time_step'])  # the same values in another numeric type
        if variant == 'constant_lattice_false':
            args['constant_lattice'] = False
        if variant == 'atom_style_charge':
            args['atom_style'] = 'charge'
        if variant == 'coords_format_upper':
            args['coords_format'] = 'XYZ'
        if args_only:
            return args
        return gcall(Trajectory.from_lammps, **args, **kw, allow=(Exception,))
    if L == 'vasprun':
        args = {}
        if variant == 'constant_lattice_false':
            args['constant_lattice'] = False
        if variant == 'tolerant_xml':
            args['exception_on_bad_xml'] = False
        if args_only:
            return args
        return gcall(Trajectory.from_vasprun, files['xml_file'], **args, **kw, allow=(Exception,))
    args = dict(topology_file=files['topology_file'], coords_file=files['coords_file'], temperature=spec.get('temperature', 300.0))
    if variant == 'temperature':
        args['temperature'] = args['temperature'] + 100
    if variant == 'temperature_close':
        args['temperature'] = args['temperature'] + 0.0004
    if variant == 'constant_lattice_false':
        args['constant_lattice'] = False
    if args_only:
        return args
    return gcall(Trajectory.from_gromacs, **args, **kw, allow=(Exception,))


def cache_files(d):
    return sorted(f for f in os.listdir(d) if f.endswith('.cache'))


class FileSet:
    """source files in a directory + lazily computed references (parsed in a sibling directory that never holds a cache
    for that variant before the call)"""

    def __init__(self, spec):
        self.spec = spec
        self.dir = tmpdir()
        self.files = write_files(spec, self.dir)
        self.refs = {}

    def reference(self, variant):
        if variant not in self.refs:
            d = tmpdir()
            files = write_files(self.spec, d)
            self.refs[variant] = call(self.spec, files, variant)
            shutil.rmtree(d, ignore_errors=True)
        return self.refs[variant]

    def reference_fresh(self, variant):
        """a newly parsed reference (the stored one may have been read through .positions already)"""
        d = tmpdir()
        files = write_files(self.spec, d)
        r = call(self.spec, files, variant)
        shutil.rmtree(d, ignore_errors=True)
        return r

    def load(self, variant):
        return call(self.spec, self.files, variant)


def add_sibling(fs, pattern):
    """a second, different simulation whose source files live in the same directory under similar names (run2 of the same
    system): returns (spec2, files2, reference2).  Every source has its own default cache, whatever the names have in common."""
    spec2 = dict(fs.spec)
    fr = np.array(fs.spec['frames'], float)
    spec2['frames'] = (np.round((fr + 0.137) % 1.0 * 0.98 + 0.01, 4)).tolist()
    d2 = tmpdir()
    files2 = write_files(spec2, d2)
    ref2 = call(spec2, files2, 'base')
    sib = {}
    for key, path in files2.items():
        if isinstance(path, str) and os.path.isfile(path):
            base = os.path.basename(path)
            stem, rest = base.split('.', 1)
            new = {'dot': f'{stem}.run2.{rest}', 'underscore': f'{stem}_2.{rest}', 'longer': f'{stem}{stem[-1]}.{rest}', 'double-ext': f'{base}.run2.{rest.split(".")[-1]}'}[pattern]
            shutil.copy(path, os.path.join(fs.dir, new))
            sib[key] = os.path.join(fs.dir, new)
        else:
            sib[key] = path
    shutil.rmtree(d2, ignore_errors=True)
    return spec2, sib, ref2


# unreadable cache contents that make pickle.load raise different exception families (none of them loads)
GARBAGE = {
    'garbage-valueerror': b'garbage\n',
    'garbage-int': b'Iabc\n.',
    'garbage-float': b'Fnotafloat\n.',
    'missing-module': b'cnonexistent_module_xyz\nThing\n.',
    'missing-class': b'cgemdat.trajectory\nNoSuchClass\n.',
    'bad-unicode': b'V\xff\xfe\n',
    'empty-stack': b'0.',
    'bad-memo': b'h\x05.',
    'short-frame': b'\x80\x04\x95\xff\x00\x00\x00\x00\x00\x00\x00.',
}
LONG_KINDS = ['long-garbage', 'long-zeros', 'long-tail']
FAULT_KINDS = ['empty', 'zeros', 'text', 'bad-opcode', 'delete'] + sorted(GARBAGE) + LONG_KINDS


def damage(path, kind, k=None, full=None):
    if kind == 'truncate':
        with open(path, 'wb') as f:
            f.write(full[:k])
    elif kind == 'empty':
        open(path, 'wb').close()
    elif kind == 'zeros':
        with open(path, 'wb') as f:
            f.write(b'\x00' * max(1, len(full)))
    elif kind == 'text':
        with open(path, 'wb') as f:
            f.write(b'this is not a cache file\n' * 5)
    elif kind == 'bad-opcode':
        with open(path, 'wb') as f:
            f.write(b'\xff\xfe' + full[2:200])
    elif kind == 'long-garbage':  # an unreadable file that is longer than the complete cache
        with open(path, 'wb') as f:
            f.write(b'\xff' + bytes((7 * i) % 251 for i in range(3 * len(full))))
    elif kind == 'long-zeros':
        with open(path, 'wb') as f:
            f.write(b'\x00' * (2 * len(full) + 100))
    elif kind == 'long-tail':  # a stale, longer file that begins like a cache but is cut inside and padded
        with open(path, 'wb') as f:
            f.write(full[: len(full) // 2] + b'\x00' * (2 * len(full)))
    elif kind in GARBAGE:
        with open(path, 'wb') as f:
            f.write(GARBAGE[kind])
    elif kind == 'delete':
        os.remove(path)
    else:
        raise AssertionError(kind)


def check_recovery(fs, variant, cachefile, full, where):
    """after a fault: the loader returns the reference and leaves a complete, loadable cache behind"""
    from gemdat.trajectory import Trajectory

    ref = fs.reference(variant)
    got = fs.load(variant)
    traj_equal(got, ref, where)
    if isinstance(ref, Raised):
        return
    if not os.path.exists(cachefile):
        raise Violation('complete-cache-left-behind', f'{where}: no cache file after loading')
    data = open(cachefile, 'rb').read()
    back = gcall(Trajectory.from_cache, cachefile, allow=(Exception,))
    if isinstance(back, Raised):
        raise Violation('complete-cache-left-behind', f'{where}: cache file ({len(data)} bytes, complete one has {len(full)}) does not load: {type(back.exc).__name__}')
    traj_equal(back, ref, where + ' (re-read cache)')
    got2 = fs.load(variant)
    traj_equal(got2, ref, where + ' (load with recovered cache)')


# ----------------------------------------------------------------------------- fixed file sets for the complete prefix enumeration
def fixed_spec(loader):
    T, N = 4, 3
    frames = [[[((7 * t + 3 * a + 5 * k) % 17) / 17.0 for k in range(3)] for a in range(N)] for t in range(T)]
    spec = {'loader': loader, 'symbols': ['Li', 'S', 'Li'], 'frames': frames, 'temperature': 450.0, 'time_step': 1.5}
    if loader == 'gromacs':
        spec['lengths'] = [6.0, 7.0, 8.0]
    else:
        spec['matrix'] = [[6.0, 0.0, 0.0], [1.0, 7.0, 0.0], [0.5, 0.3, 8.0]]
    return spec


_FIXED = {}


def fixed(loader):
    if loader not in _FIXED:
        fs = FileSet(fixed_spec(loader))
        ref = fs.load('base')
        cf = cache_files(fs.dir)
        assert len(cf) == 1 and not isinstance(ref, Raised), (cf, ref)
        path = os.path.join(fs.dir, cf[0])
        _FIXED[loader] = (fs, path, open(path, 'rb').read())
    return _FIXED[loader]


LOADERS = ['lammps', 'vasprun', 'gromacs']


def prefix_size(tier):
    return sum(len(fixed(L)[2]) for L in LOADERS)


def prefix_case(tier, idx):
    for L in LOADERS:
        n = len(fixed(L)[2])
        if idx < n:
            return {'loader': L, 'k': idx}
        idx -= n
    raise IndexError


def run_prefix(case):
    fs, path, full = fixed(case['loader'])
    damage(path, 'truncate', case['k'], full)
    check_recovery(fs, 'base', path, full, f'{case["loader"]} cache truncated to {case["k"]} of {len(full)} bytes')
    if open(path, 'rb').read() != full:
        raise Violation('complete-cache-left-behind', f'{case["loader"]}: cache rewritten after truncation to {case["k"]} bytes differs from the complete cache')
    return {'nontrivial': 0 < case['k'] < len(full), 'labels': [case['loader']]}


def garbage_size(tier):
    return len(LOADERS) * len(FAULT_KINDS)


def garbage_case(tier, idx):
    return {'loader': LOADERS[idx // len(FAULT_KINDS)], 'kind': FAULT_KINDS[idx % len(FAULT_KINDS)]}


def run_garbage(case):
    fs, path, full = fixed(case['loader'])
    damage(path, case['kind'], 0, full)
    check_recovery(fs, 'base', path, full, f'{case["loader"]} cache replaced by {case["kind"]!r}')
    if open(path, 'rb').read() != full:
        raise Violation('complete-cache-left-behind', f'{case["loader"]}: cache after fault {case["kind"]!r} differs from the complete cache')
    return {'nontrivial': case['kind'] != 'delete', 'labels': [case['loader'], case['kind']]}


# ----------------------------------------------------------------------------- a vasprun.xml that was itself cut mid-write
def run_badxml(case):
    spec = dict(case['spec'], loader='vasprun')
    fs = FileSet(spec)
    try:
        # cut the xml inside the last calculation block
        xml = open(fs.files['xml_file']).read()
        cut = xml.rfind('<calculation>') + case['cut']
        cut = min(max(cut, xml.rfind('<calculation>') + 5), len(xml) - 20)

        def write(d):
            files = write_files(spec, d)
            with open(files['xml_file'], 'w') as f:
                f.write(xml[:cut])
            return files

        fs.files = write(fs.dir)
        refs = {}
        for v in ('base', 'tolerant_xml'):
            d = tmpdir()
            refs[v] = call(spec, write(d), v)
            shutil.rmtree(d, ignore_errors=True)
        labels = ['strict-raises' if isinstance(refs['base'], Raised) else 'strict-parses', 'tolerant-raises' if isinstance(refs['tolerant_xml'], Raised) else 'tolerant-parses']
        for v in case['order']:
            got = fs.load(v)
            traj_equal(got, refs[v], f'vasprun cut at byte {cut}: load {v!r} in order {case["order"]} (caches present: {cache_files(fs.dir)})')
        return {'nontrivial': isinstance(refs['base'], Raised) != isinstance(refs['tolerant_xml'], Raised), 'labels': labels}
    finally:
        shutil.rmtree(fs.dir, ignore_errors=True)


@st.composite
def badxml_cases(draw, tier):
    spec = draw(specs(loaders=['vasprun']))
    if len(spec['frames']) < 2:
        spec['frames'] = spec['frames'] * 2
    return {'spec': spec, 'cut': draw(st.integers(5, 400)), 'order': draw(st.lists(st.sampled_from(['base', 'tolerant_xml']), min_size=2, max_size=4))}


# ----------------------------------------------------------------------------- a crash injected into the real cache write
class _FaultyFile:
    """file object that lets `limit` bytes through and then fails, as a power cut / full disk during pickle.dump would"""

    def __init__(self, f, limit):
        self.f, self.limit, self.written = f, limit, 0

    def write(self, b):
        room = self.limit - self.written
        if len(b) > room:
            self.f.write(bytes(b[:room]))
            self.written = self.limit
            self.f.flush()
            raise OSError('injected crash while writing the cache')
        self.written += len(b)
        return self.f.write(b)

    def __getattr__(self, name):
        return getattr(self.f, name)

    def __enter__(self):
        return self

    def __exit__(self, *exc):
        self.f.close()
        return False


def crash_size(tier):
    step = 5 if tier == 'quick' else 1
    return sum((len(fixed(L)[2]) + step - 1) // step for L in LOADERS)


def crash_case(tier, idx):
    step = 5 if tier == 'quick' else 1
    for L in LOADERS:
        n = (len(fixed(L)[2]) + step - 1) // step
        if idx < n:
            return {'loader': L, 'k': idx * step}
        idx -= n
    raise IndexError


def run_crash(case):
    import builtins

    import gemdat.trajectory as gt

    fs, path, full = fixed(case['loader'])
    k = case['k']
    if os.path.exists(path):
        os.remove(path)

    sources = {os.path.abspath(v) for v in fs.files.values() if isinstance(v, str)}

    def faulty_open(file, mode='r', *a, **kw):
        f = builtins.open(file, mode, *a, **kw)
        # any file the loader writes that is not one of the source files is (part of) the cache write, whatever its name
        is_write = isinstance(mode, str) and any(c in mode for c in 'wax+')
        return _FaultyFile(f, k) if (is_write and os.path.abspath(str(file)) not in sources) else f

    gt.open = faulty_open  # shadows the builtin inside gemdat.trajectory only
    try:
        crashed = fs.load('base')
    finally:
        del gt.open
    if not isinstance(crashed, Raised) or 'injected crash' not in str(crashed.exc):
        # the cache was written through a route this injection does not intercept (or the fault was absorbed):
        # nothing can be concluded about an interrupted write from this case
        raise Skip()
    left = open(path, 'rb').read() if os.path.exists(path) else None
    if left is not None and left != full[: len(left)]:
        raise Violation('partial-cache-is-a-prefix', f'{case["loader"]}: {len(left)} bytes left behind are not a prefix of the complete cache')
    check_recovery(fs, 'base', path, full, f'{case["loader"]}: cache write interrupted after {k} of {len(full)} bytes ({"no file" if left is None else str(len(left)) + " bytes"} left behind)')
    if open(path, 'rb').read() != full:
        raise Violation('complete-cache-left-behind', f'{case["loader"]}: cache after recovery differs from the complete cache')
    return {'nontrivial': left is not None and 0 < len(left) < len(full), 'labels': [case['loader']]}


# ----------------------------------------------------------------------------- generated file sets
@st.composite
def specs(draw, loaders=LOADERS):
    loader = draw(st.sampled_from(loaders))
    T, N = draw(st.integers(1, 5)), draw(st.integers(1, 4))
    pool = ['Li', 'S', 'P'] if loader != 'gromacs' else ['Li', 'S', 'P', 'O']
    symbols = sorted(draw(st.lists(st.sampled_from(pool), min_size=N, max_size=N)), key=pool.index)
    lo, hi = draw(st.sampled_from([(0.01, 0.99), (0.01, 0.99), (-0.6, 1.6)])) if loader != 'gromacs' else (0.01, 0.99)  # unwrapped ions past a cell face
    frames = [[[round(draw(st.floats(lo, hi)), 4) for _ in range(3)] for _ in range(N)] for _ in range(T)]
    spec = {'loader': loader, 'symbols': symbols, 'frames': frames, 'temperature': float(draw(st.sampled_from([100, 300, 650]))), 'time_step': float(draw(st.sampled_from([1.0, 2.0, 0.001, 0.0002, 0.0005])))}
    if loader == 'gromacs':
        spec['lengths'] = [round(draw(st.floats(4, 9)), 3) for _ in range(3)]
    else:
        lat = draw(gen.lattices(orients=['lower'], lmin=4.0, lmax=9.0))
        spec['matrix'] = lat['matrix']
    if loader == 'lammps':
        spec['numeric_types'] = draw(st.booleans())
    return spec


def run_faults(case):
    """one generated file set: load, second load, strided truncations and garbage, argument variants"""
    spec = case['spec']
    fs = FileSet(spec)
    L = spec['loader']
    try:
        ref = fs.reference('base')
        if isinstance(ref, Raised):
            raise Skip()  # generated inputs the parser itself rejects
        first = fs.load('base')
        traj_equal(first, ref, 'first load (no cache)')
        cf = cache_files(fs.dir)
        if len(cf) != 1:
            raise Violation('cache-written', f'cache files after the first load: {cf}')
        path = os.path.join(fs.dir, cf[0])
        full = open(path, 'rb').read()
        # what a caller does with a returned trajectory must not leak into later loads
        gcall(lambda: first.displacements)
        first.metadata['temperature'] = -1.0
        second = fs.load('base')
        traj_equal(second, fs.reference_fresh('base'), 'second load (cache present, after the first result was used and modified)')
        gcall(lambda: second.displacements)
        second.metadata['temperature'] = -2.0
        third = fs.load('base')
        if third is second:
            raise Violation('load-returns-fresh-trajectory', 'a later load returned the very object an earlier load had handed out')
        traj_equal(third, fs.reference_fresh('base'), 'third load (cache present, after the second result was used and modified)')
        n_faults = 0
        for f in case['faults']:
            kind = f['kind']
            k = int(f.get('frac', 0) * len(full)) if kind == 'truncate' else None
            if kind == 'truncate':
                k = min(max(k, 0), len(full) - 1)
            damage(path, kind, k, full)
            check_recovery(fs, 'base', path, full, f'{L}: fault {kind}{"" if k is None else " at byte " + str(k)}')
            n_faults += 1
        labels = [L]
        if case.get('explicit_cache'):
            # the documented cache= argument (a str or a Path): same fallback behaviour as the default cache file
            from pathlib import Path

            from gemdat.trajectory import Trajectory

            ec = os.path.join(fs.dir, 'my-own-name.cache')
            arg = ec if case['explicit_cache'] == 'str' else Path(ec)
            traj_equal(call(spec, fs.files, 'base', cache=arg), ref, f'{L}: first load with cache={case["explicit_cache"]}')
            if not os.path.exists(ec):
                raise Violation('cache-written', f'{L}: no file at the explicit cache path ({case["explicit_cache"]})')
            efull = open(ec, 'rb').read()
            for f in case['faults'][:2]:
                k = min(max(int(f.get('frac', 0) * len(efull)), 0), len(efull) - 1) if f['kind'] == 'truncate' else None
                damage(ec, f['kind'], k, efull)
                got_e = call(spec, fs.files, 'base', cache=arg)
                traj_equal(got_e, ref, f'{L}: explicit cache given as {case["explicit_cache"]}, fault {f["kind"]}{"" if k is None else " at byte " + str(k)}')
                back_e = gcall(Trajectory.from_cache, arg, allow=(Exception,))
                if isinstance(back_e, Raised):
                    raise Violation('complete-cache-left-behind', f'{L}: explicit cache ({case["explicit_cache"]}) does not load after recovery from {f["kind"]}: {type(back_e.exc).__name__}')
                traj_equal(back_e, ref, f'{L}: explicit cache re-read after recovery')
            labels.append('explicit-cache-' + case['explicit_cache'])
        if case.get('sibling'):
            # a second run of the same system in the same directory under a similar name: each source keeps its own trajectory
            spec2, sib, ref2 = add_sibling(fs, case['sibling'])
            if not isinstance(ref2, Raised):
                for rep in range(2):
                    traj_equal(call(spec2, sib, 'base'), ref2, f'{L}: load {rep} of a second source named {sorted(os.path.basename(v_) for v_ in sib.values() if isinstance(v_, str))} beside the first')
                    traj_equal(fs.load('base'), fs.reference_fresh('base'), f'{L}: the first source after the second one ({case["sibling"]} naming) was loaded')
                labels.append('sibling-source-' + case['sibling'])
        # argument variants while caches of other variants are present
        seen_args = {repr(sorted((k_, repr(x_)) for k_, x_ in call(spec, fs.files, 'base', args_only=True).items()))}
        for v in case['variants']:
            if v not in VARIANTS[L]:
                continue
            refv = fs.reference(v)
            before = set(cache_files(fs.dir))
            gotv = fs.load(v)
            traj_equal(gotv, refv, f'{L}: load with option variant {v!r} while the cache of the base call is present')
            after = set(cache_files(fs.dir))
            # (two variants may amount to the same option values, e.g. time step x 2 and time step + 0.0002 for a step of 0.0002: one cache file then)
            akey = repr(sorted((k_, repr(x_)) for k_, x_ in call(spec, fs.files, v, args_only=True).items()))
            if v in DIFFERENT_PARSE[L] and not isinstance(refv, Raised) and not (after - before) and akey not in seen_args:
                raise Violation('different-options-different-cache-file', f'{L}: variant {v!r} parses differently but used an existing cache file {sorted(after)}')
            seen_args.add(akey)
            # ... and the cache written for this option set recovers from a fault like the default one does
            newf = sorted(after - before)
            if len(newf) == 1 and not isinstance(refv, Raised) and case['faults']:
                vpath = os.path.join(fs.dir, newf[0])
                vfull = open(vpath, 'rb').read()
                f0 = case['faults'][len(labels) % len(case['faults'])]
                k0 = min(max(int(f0.get('frac', 0) * len(vfull)), 0), len(vfull) - 1) if f0['kind'] == 'truncate' else None
                damage(vpath, f0['kind'], k0, vfull)
                check_recovery(fs, v, vpath, vfull, f'{L}: option variant {v!r}, fault {f0["kind"]}{"" if k0 is None else " at byte " + str(k0)} on its own cache')
                labels.append('variant-cache-fault')
            traj_equal(fs.load('base'), ref, f'{L}: base call after variant {v!r}')
            labels.append('variant-' + v)
        return {'nontrivial': n_faults >= 1, 'labels': labels}
    finally:
        shutil.rmtree(fs.dir, ignore_errors=True)


@st.composite
def fault_cases(draw, tier):
    spec = draw(specs())
    faults = draw(st.lists(st.one_of(st.builds(lambda fr: {'kind': 'truncate', 'frac': fr}, st.floats(0, 1)), st.sampled_from([{'kind': k} for k in FAULT_KINDS])), min_size=1, max_size=5))
    variants = draw(st.lists(st.sampled_from(VARIANTS[spec['loader']][1:]), max_size=3, unique=True))
    return {'spec': spec, 'faults': faults, 'variants': variants, 'sibling': draw(st.sampled_from([None, None, 'dot', 'underscore', 'longer', 'double-ext'])),
            'explicit_cache': draw(st.sampled_from([None, None, 'str', 'path']))}


# ----------------------------------------------------------------------------- save / load round trip
def run_roundtrip(case):
    from gemdat.trajectory import Trajectory

    path = np.array(case['path'], float)
    t = cases.trajectory(path - np.floor(path), case['symbols'], case['lattice']['matrix'], case['time_step'], case['temperature'], case['species_kind'])
    if case['mode'] == 'displacements':
        gcall(lambda: t.displacements)
    d = tmpdir()
    try:
        fn = os.path.join(d, 'x.cache')
        if case.get('over_longer'):
            # the cache file is re-used: it already holds a longer trajectory
            big = np.concatenate([path] * 4, axis=0)
            gcall(cases.trajectory(big - np.floor(big), case['symbols'], case['lattice']['matrix'], case['time_step'], case['temperature'], case['species_kind']).to_cache, fn)
        rep0, c0, b0 = bool(t.coords_are_displacement), np.array(t.coords), (None if t.base_positions is None else np.array(t.base_positions))
        gcall(t.to_cache, fn)
        back = gcall(Trajectory.from_cache, fn, clause='save-load-identical')
        # the stored state first: identical means the same representation holding the same numbers (reading .positions would re-wrap and hide differences)
        if bool(back.coords_are_displacement) != rep0 or np.shape(back.coords) != c0.shape or not np.array_equal(np.asarray(back.coords), c0):
            raise Violation('save-load-identical', f'stored coordinates differ after to_cache/from_cache (saved in {case["mode"]} representation): representation {rep0} -> {bool(back.coords_are_displacement)}' + ('' if np.shape(back.coords) != c0.shape else f', values differ by up to {np.abs(np.asarray(back.coords) - c0).max():.3e}'))
        if rep0 and (back.base_positions is None or not np.array_equal(np.asarray(back.base_positions), b0)):
            raise Violation('save-load-identical', 'base positions differ after to_cache/from_cache')
        if rep0:
            da, db = np.asarray(gcall(back.distances_from_base_position)), np.asarray(gcall(t.distances_from_base_position))
            if da.shape != db.shape or np.abs(da - db).max() > 1e-12 * max(1.0, np.abs(db).max()):
                raise Violation('save-load-identical', 'distances from the base position differ after to_cache/from_cache')
        ref = cases.trajectory(path - np.floor(path), case['symbols'], case['lattice']['matrix'], case['time_step'], case['temperature'], case['species_kind'])
        pa, pb = np.asarray(back.positions), np.asarray(ref.positions)
        if pa.shape != pb.shape or np.abs(((pa - pb + 0.5) % 1.0) - 0.5).max() > (0 if case['mode'] == 'positions' else 1e-9):
            raise Violation('save-load-identical', f'positions differ after to_cache/from_cache (saved in {case["mode"]} representation)')
        if [str(s) for s in back.species] != [str(s) for s in ref.species] or back.time_step != ref.time_step or back.metadata != ref.metadata or not np.array_equal(np.asarray(back.lattice), np.asarray(ref.lattice)):
            raise Violation('save-load-identical', 'species / time step / metadata / lattice differ after to_cache/from_cache')
        if not isinstance(back, Trajectory):
            raise Violation('save-load-identical', f'{type(back)}')
        # the saved object is unaffected
        if np.abs(((np.asarray(t.positions) - pb + 0.5) % 1.0) - 0.5).max() > 1e-9:
            raise Violation('save-load-identical', 'saving changed the source')
    finally:
        shutil.rmtree(d, ignore_errors=True)
    return {'nontrivial': len(path) >= 2, 'labels': [case['mode'], case['species_kind']]}


@st.composite
def roundtrip_cases(draw, tier):
    c = draw(gen.path_cases(max_frames=8, max_atoms=4))
    c['species_kind'] = draw(st.sampled_from(['Species', 'Element', 'Species-oxi', 'Species-mixed', 'Species-mixed']))  # (one element may occur in two oxidation states)
    c['mode'] = draw(st.sampled_from(['positions', 'displacements']))
    c['over_longer'] = draw(st.booleans())
    return c


# ----------------------------------------------------------------------------- fault / recover histories
LogMachine = log_machine_base()


class CacheMachine(LogMachine):
    def setup(self):
        self.fs = None
        self.cycles = 0
        self.pending_fault = False

    def apply(self, op):
        if op['op'] == 'init':
            self.fs = FileSet(op['spec'])
            ref = self.fs.reference('base')
            if isinstance(ref, Raised):
                self.fs = None
                return
            traj_equal(self.fs.load('base'), ref, 'first load')
            cf = cache_files(self.fs.dir)
            if len(cf) != 1:
                raise Violation('cache-written', f'{cf}')
            self.path = os.path.join(self.fs.dir, cf[0])
            self.full = open(self.path, 'rb').read()
            return
        if self.fs is None:
            return
        L = self.fs.spec['loader']
        if op['op'] == 'fault':
            if not os.path.exists(self.path) and op['kind'] == 'delete':
                return
            k = min(len(self.full) - 1, int(op.get('frac', 0) * len(self.full)))
            damage(self.path, op['kind'], k, self.full)
            self.pending_fault = True
        elif op['op'] == 'load':
            v = op['variant'] if op['variant'] in VARIANTS[L] else 'base'
            if v == 'base':
                check_recovery(self.fs, 'base', self.path, self.full, f'{L}: load after history {[o.get("kind", o.get("variant", o["op"])) for o in self.log[-4:]]}')
                if self.pending_fault:
                    self.cycles += 1
                    self.pending_fault = False
            else:
                traj_equal(self.fs.load(v), self.fs.reference(v), f'{L}: variant {v!r} after history {[o.get("kind", o.get("variant", o["op"])) for o in self.log[-4:]]}')

    def finish(self):
        if self.fs is not None:
            if os.path.exists(self.path) or True:
                check_recovery(self.fs, 'base', self.path, self.full, 'final load')
            shutil.rmtree(self.fs.dir, ignore_errors=True)

    def teardown(self):
        try:
            super().teardown()
        finally:
            if self.fs is not None:
                shutil.rmtree(self.fs.dir, ignore_errors=True)

    def info(self):
        return {'nontrivial': self.cycles >= 2, 'labels': ([self.fs.spec['loader']] if self.fs else []) + (['>=2-fault-recover-cycles'] if self.cycles >= 2 else [])}

    @initialize(spec=specs())
    def r_init(self, spec):
        self.step({'op': 'init', 'spec': spec})

    @rule(kind=st.sampled_from(['truncate', 'truncate', 'truncate'] + FAULT_KINDS), frac=st.floats(0, 1))
    def r_fault(self, kind, frac):
        self.step({'op': 'fault', 'kind': kind, 'frac': frac})

    @rule(variant=st.sampled_from(['base', 'base', 'base', 'type_mapping_b', 'temperature', 'constant_lattice_false', 'tolerant_xml', 'time_step', 'temperature_close', 'time_step_close', 'numbers_as_int']))
    def r_load(self, variant):
        self.step({'op': 'load', 'variant': variant})


def run_log(case):
    return replay_log(CacheMachine, case['log'])


SUBS = [
    Sub(name='all-prefixes', kind='enum', run=run_prefix, size=prefix_size, case_at=prefix_case, exhaustive=True,
        rule='complete enumeration of every prefix length 0..len-1 of the cache file of one fixed file set per loader (LAMMPS, VASP, GROMACS): load returns the reference, the rewritten cache is byte-identical to the complete one and loads to the reference',
        shards={'quick': 16, 'thorough': 16}),
    Sub(name='crash-during-write', kind='enum', run=run_crash, size=crash_size, case_at=crash_case, exhaustive={'quick': False, 'thorough': True},
        rule='fault injection into the real write path: the file object handed to pickle.dump fails after k bytes (every 5th k in the quick tier, every k in the thorough tier, per loader); the interrupted load must surface the fault, leave at most a prefix, and the next load must return the reference and a complete cache',
        shards={'quick': 16, 'thorough': 16}),
    Sub(name='unreadable-kinds', kind='enum', run=run_garbage, size=garbage_size, case_at=garbage_case, exhaustive=True,
        rule='every unreadable-cache kind (empty, zeros, text, bad opcode, deleted, and nine byte strings on which pickle.load raises ValueError / ModuleNotFoundError / AttributeError / EOFError / UnpicklingError) x every loader',
        shards={'quick': 3, 'thorough': 3}),
    Sub(name='vasprun-cut-xml', kind='hyp', run=run_badxml, strategy=badxml_cases,
        rule='a vasprun.xml that is itself cut inside the last <calculation>: strict and tolerant (exception_on_bad_xml=False) loads in generated order, each compared with its own cache-free reference (trajectory or exception type)',
        n={'quick': 10, 'thorough': 200}, shards={'quick': 6, 'thorough': 16}),
    Sub(name='faults-and-options', kind='hyp', run=run_faults, strategy=fault_cases,
        rule='generated file sets per loader; truncation at a generated fraction, empty / zero-filled / text / bad-opcode / deleted cache; option variants (type_mapping, temperature, time_step, constant_lattice, atom_style, coords_format, parser kwargs) loaded while other caches are present',
        n={'quick': 25, 'thorough': 400}, shards={'quick': 12, 'thorough': 16}),
    Sub(name='save-load', kind='hyp', run=run_roundtrip, strategy=roundtrip_cases,
        rule='in-memory trajectories saved in position or displacement representation and loaded back',
        n={'quick': 100, 'thorough': 1500}, shards={'quick': 2, 'thorough': 8}),
    Sub(name='fault-histories', kind='machine', run=run_log, machine=lambda tier: CacheMachine,
        rule='RuleBasedStateMachine interleaving loads (base and option variants) with faults on the cache file; after every base load the reference is returned and a complete cache is left behind',
        n={'quick': 8, 'thorough': 150}, shards={'quick': 8, 'thorough': 16}, steps={'quick': 12, 'thorough': 25}),
]
