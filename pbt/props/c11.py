"""C11  Radial distributions equal brute-force histograms and partition over states."""
from __future__ import annotations

import collections
import math

import numpy as np
from hypothesis import strategies as st

from .. import cases, gen, oracle, sitesys
from ..runner import Raised, Skip, Sub, Violation, gcall

PROPERTY = 'C11'
LEVEL = 'exploration'
RULE = ('cases are multi-species hopping systems (diffusers + framework atoms of up to three other species) in all cells with a cut-off in [1,6] A and a '
        'resolution in [0.1,1] A; non-trivial = at least two site labels, at least one "at site" frame, at least one "X->Y" frame and at least one pair '
        'counted through a periodic image')
ASSUMPTIONS = [
    'edge band 1e-9 A: a pair whose distance lies within the band of a bin edge may be counted in either neighbouring bin',
    'bin 0 of the per-state form (distance exactly zero: the diffusing atom paired with itself) and self pairs of the species form are compared permissively (with or without them)',
    'the per-state form takes the site states from the Transitions object as given (their correctness is C02); the names of "~>" states are not constrained, only the partition',
]
BAND = 1e-9


def hist_bins(d, edges, closed_right):
    """strict counts per bin plus list of (allowed bins) for distances inside the edge band.
    closed_right: bin i is (e[i-1], e[i]] with bin 0 = {d <= e[0]} (digitize right=True); else [e[i], e[i+1])"""
    edges = np.asarray(edges, float)
    nb = len(edges) if closed_right else len(edges) - 1
    d = np.asarray(d, float).ravel()
    if d.size == 0:
        return np.zeros(nb, dtype=int), []
    k = np.searchsorted(edges, d, side='left' if closed_right else 'right')
    j = np.clip(np.searchsorted(edges, d), 1, len(edges) - 1)
    j = np.where(np.abs(d - edges[j - 1]) <= np.abs(d - edges[j]), j - 1, j)  # nearest edge
    near = np.abs(d - edges[j]) < BAND
    b = k if closed_right else k - 1
    ok = ~near & (b >= 0) & (b < nb)
    strict = np.bincount(b[ok], minlength=nb).astype(int)
    amb = []
    for e in j[near]:
        e = int(e)
        cand = {e, e + 1} if closed_right else {e - 1, e}
        cand = {c for c in cand if 0 <= c < nb}
        if cand:
            amb.append(cand | {-1} if len(cand) < 2 else cand)  # -1: may also fall outside the histogram
    return strict, amb


def compare_hist(got, strict, amb, what, where):
    got = np.asarray(got)
    if got.shape != strict.shape:
        raise Violation(what + '-length', f'{where}: {got.shape} bins vs {strict.shape}')
    if np.any(np.abs(got - np.rint(got)) > 1e-6):
        raise Violation(what + '-integer-counts', where)
    rem = np.rint(got).astype(int) - strict
    if (rem < 0).any():
        b = int(np.argwhere(rem < 0)[0][0])
        raise Violation(what, f'{where}: bin {b} holds {int(got[b])} pairs, brute force counts {int(strict[b])} (all bins: got {np.rint(got).astype(int).tolist()}, want {strict.tolist()})')
    allowed = np.zeros_like(strict)
    for c in amb:
        for b in c:
            if b >= 0:
                allowed[b] += 1
    if (rem > allowed).any():
        b = int(np.argwhere(rem > allowed)[0][0])
        raise Violation(what, f'{where}: bin {b} holds {int(got[b])} pairs, brute force counts {int(strict[b])} (+{int(allowed[b])} on an edge) (got {np.rint(got).astype(int).tolist()}, want {strict.tolist()})')


def check_edges(x, res, max_dist, closed_right):
    x = np.asarray(x, float)
    if np.abs(x - np.arange(len(x)) * res).max() > 1e-9 * max(1.0, max_dist):
        raise Violation('bin-edges', f'x is not k x resolution: {x[:4].tolist()}')
    top = x[-1] if closed_right else x[-1] + res
    if top < max_dist - 1e-9 or top > max_dist + res + 1e-9:
        raise Violation('bin-edges-cover-cut-off', f'last edge {top!r} for cut-off {max_dist!r}, resolution {res!r}')


def expand(case):
    """long runs are stored compactly: a short template system whose frames are repeated cyclically up to 'tile_to' frames"""
    T = case.get('tile_to')
    if not T:
        return case
    c = dict(case)
    T0 = len(case['diff'])
    idx = np.arange(T) % T0
    c['diff'] = np.array(case['diff'], float)[idx]
    if case.get('diff_shift') is not None:
        c['diff_shift'] = np.array(case['diff_shift'], float)[idx]
    c['framework'] = dict(case['framework'], coords=np.array(case['framework']['coords'], float)[idx])
    return c


def run_species(case):
    from gemdat.rdf import radial_distribution_between_species

    case = expand(case)

    M = np.array(case['lattice']['matrix'])
    traj = sitesys.full_trajectory(case, species_kind=case.get('species_kind', 'Species'))
    cases.prelude(traj, case.get('prelude'))
    symbols, coords, _ = sitesys.atom_layout(case)
    coords = coords - np.floor(coords)  # (periodic images of the input are irrelevant to the expected distances)
    T = coords.shape[0]
    res, mx = case['resolution'], case['max_dist']
    s1, s2 = case['specie_1'], case['specie_2']

    def sel(s):
        ss = [s] if isinstance(s, str) else list(s)
        return [i for i, x in enumerate(symbols) if x in ss]

    def call(a, b):
        r = gcall(radial_distribution_between_species, trajectory=traj, specie_1=a, specie_2=b, max_dist=mx, resolution=res)
        return np.asarray(r.x, float), np.asarray(r.y, float)

    i1, i2 = sel(s1), sel(s2)
    if not i1 or not i2:
        raise Skip()
    x, y = call(s1, s2)
    if not np.all(np.isfinite(y)):
        raise Violation('species-rdf-finite', f'{s1}-{s2}: y = {y.tolist()[:6]} for max_dist={mx!r}, resolution={res!r}')
    check_edges(x, res, mx, closed_right=False)
    edges = np.append(x, x[-1] + res)
    vol = oracle.volume(M)
    shell = (4 / 3) * math.pi * ((x + res) ** 3 - x**3)
    raw = y * (len(i2) / vol) * shell
    d_all, via_image = [], False
    for t in range(T):
        vec, dist, img = oracle.min_image_vectors(coords[t, i1], coords[t, i2], M, return_image=True)
        d_all.append(dist.ravel())
        wrapped = np.round(coords[t, i2][None, :, :] - coords[t, i1][:, None, :] - vec @ np.linalg.inv(M))
        via_image |= bool(np.any((dist < edges[-1]) & np.any(wrapped != 0, axis=-1)))
    d_all = np.concatenate(d_all)
    self_pairs = T * len(set(i1) & set(i2))
    strict, amb = hist_bins(d_all, edges, closed_right=False)
    strict_noself = strict.copy()
    strict_noself[0] -= self_pairs
    try:
        compare_hist(raw, strict, amb, 'species-rdf-equals-normalised-histogram', f'{s1}-{s2}')
    except Violation:
        if not self_pairs:
            raise
        compare_hist(raw, strict_noself, amb, 'species-rdf-equals-normalised-histogram', f'{s1}-{s2}')
    # symmetry of the raw pair counts
    x2, y2 = call(s2, s1)
    raw2 = y2 * (len(i1) / vol) * shell
    if np.abs(raw - raw2).max() > 1e-6:
        raise Violation('raw-pair-counts-symmetric', f'{s1}-{s2}: {np.rint(raw).tolist()} vs {np.rint(raw2).tolist()}')
    labels = [case['lattice']['family']] + ([f'frames>{1000 * (T // 1000)}' if T % 1000 else 'frames-multiple-of-1000'] if T >= 900 else [])
    if via_image:
        labels.append('pair-through-periodic-image')
    if amb:
        labels.append('distance-on-bin-edge')
    return {'nontrivial': via_image and strict.sum() > 0, 'labels': labels}


def run_states(case):
    case = expand(case)
    M = np.array(case['lattice']['matrix'])
    want, _ = sitesys.expected_states(case)
    if (want == -2).any() or not (want[1:] != want[:-1]).any():
        raise Skip()
    if case.get('decoy'):
        # an earlier, unrelated analysis of the same shape whose objects are released before the real one is built
        dc = dict(case, diff=np.array(case['diff'])[::-1].tolist())
        dt_ = sitesys.full_trajectory(dc)
        dtr = gcall(dt_.transitions_between_sites, sitesys.sites(case), 'Li', site_radius=float(case['radius']), site_inner_fraction=case['inner_fraction'], allow=(ValueError,))
        if not isinstance(dtr, Raised):
            gcall(dtr.radial_distribution, floating_specie='Li', max_dist=case['max_dist'], resolution=case['resolution'])
        del dt_, dtr
    traj = sitesys.full_trajectory(case, species_kind=case.get('species_kind', 'Species'))
    site_labels = case['sites']['labels']
    tr = gcall(traj.transitions_between_sites, sitesys.sites(case), 'Li', site_radius=float(case['radius']), site_inner_fraction=case['inner_fraction'])
    states = np.asarray(tr.states)
    res, mx = case['resolution'], case['max_dist']
    for obj in (traj, tr.trajectory, tr.diff_trajectory):  # read-only queries between building the transitions and asking for the RDFs
        cases.prelude(obj, case.get('prelude'))
    rdfs = gcall(tr.radial_distribution, floating_specie='Li', max_dist=mx, resolution=res)
    symbols, coords, dcols = sitesys.atom_layout(case)
    coords = coords - np.floor(coords)
    diff = coords[:, dcols]
    T, Nd = states.shape
    prev, nxt = oracle.ffill_model(states), oracle.bfill_model(states)
    # all returned x arrays identical and well formed
    xs = [np.asarray(r.x, float) for coll in rdfs.values() for r in coll]
    if not xs:
        raise Violation('no-rdf-returned', '')
    x = xs[0]
    check_edges(x, res, mx, closed_right=True)
    for xx in xs:
        if xx.shape != x.shape or np.abs(xx - x).max() > 0:
            raise Violation('bin-edges', 'different x arrays')
    # expected: class -> symbol -> list of distances
    exp = collections.defaultdict(lambda: collections.defaultdict(list))
    n_self = collections.Counter()
    via_image = False
    for t in range(T):
        vec, dist, img = oracle.min_image_vectors(diff[t], coords[t], M, return_image=True)
        wrapped = np.round(coords[t][None, :, :] - diff[t][:, None, :] - vec @ np.linalg.inv(M))
        via_image |= bool(np.any((dist <= x[-1]) & np.any(wrapped != 0, axis=-1)))
        for k in range(Nd):
            s, p, n = int(states[t, k]), int(prev[t, k]), int(nxt[t, k])
            if s >= 0:
                cls = '@' + site_labels[s]
            elif p >= 0 and n >= 0:
                cls = site_labels[p] + '->' + site_labels[n]
            else:
                cls = '~>'
            for j, sym in enumerate(symbols):
                exp[cls][sym].append(dist[k, j])
            n_self[cls] += 1
    # group the returned collections into classes
    got = collections.defaultdict(lambda: collections.defaultdict(lambda: None))
    for state, coll in rdfs.items():
        cls = '~>' if state.startswith('~>') else state
        seen = set()
        for r in coll:
            if r.state != state:
                raise Violation('rdf-state-field', f'{r.state} in collection {state}')
            if r.label in seen:
                raise Violation('one-rdf-per-state-and-symbol', f'{state}/{r.label} twice')
            seen.add(r.label)
            y = np.asarray(r.y)
            got[cls][r.label] = y if got[cls][r.label] is None else got[cls][r.label] + y
    for cls in got:
        if cls not in exp and any(np.asarray(v).sum() for v in got[cls].values()):
            kind = 'at-site-state-only-frames-at-that-label' if cls.startswith('@') else ('between-state-only-frames-between-those-labels' if '->' in cls else 'partition')
            raise Violation(kind, f'state {cls!r} holds {int(sum(np.asarray(v).sum() for v in got[cls].values()))} pairs but no frame is in that state; frames are in {sorted(exp)}; site labels {site_labels}')
    for cls in exp:
        for sym, dl in exp[cls].items():
            strict, amb = hist_bins(dl, x, closed_right=True)
            g = got[cls][sym] if cls in got and got[cls][sym] is not None else np.zeros(len(x))
            kind = 'at-site-state-only-frames-at-that-label' if cls.startswith('@') else ('between-state-only-frames-between-those-labels' if '->' in cls else 'partition')
            where = f'state {cls!r} symbol {sym} (site labels {site_labels})'
            if sym == 'Li':
                alt = strict.copy()
                alt[0] = max(0, alt[0] - n_self[cls])
                try:
                    compare_hist(g, strict, amb, kind, where)
                except Violation:
                    compare_hist(g, alt, amb, kind, where)
            else:
                compare_hist(g, strict, amb, kind, where)
    labels = [case['lattice']['family']] + (['interleaved-atom-order'] if dcols != list(range(Nd)) else [])
    if any(c.startswith('@') for c in exp):
        labels.append('at-site-frames')
    if any('->' in c for c in exp):
        labels.append('between-frames')
    if '~>' in exp:
        labels.append('tilde-frames')
    if via_image:
        labels.append('pair-through-periodic-image')
    nt = len(set(site_labels)) >= 2 and 'at-site-frames' in labels and 'between-frames' in labels and via_image
    return {'nontrivial': nt, 'labels': labels}


def _rdf_params(draw, c):
    mode = draw(st.sampled_from(['float', 'float', 'float', 'int', 'bin-count']))
    if mode == 'int':
        # plain Python integers are valid lengths too
        c['max_dist'], c['resolution'] = draw(st.sampled_from([(6, 2), (5, 1), (4, 2), (3, 1), (6, 3)]))
    elif mode == 'bin-count':
        # a particular number of bin edges (around 128 / 256 / 512)
        k = draw(st.sampled_from([127, 128, 129, 255, 256, 257, 511, 512]))
        c['resolution'] = float(draw(st.sampled_from([0.02, 0.01, 0.0125])))
        c['max_dist'] = float(c['resolution'] * (k - 1) + draw(st.sampled_from([0.0, 0.3, 0.7])) * c['resolution'])
    else:
        c['max_dist'] = float(draw(st.one_of(st.floats(1.0, 6.0), st.sampled_from([1.0, 2.5, 5.0]))))
        c['resolution'] = float(draw(st.one_of(st.floats(0.1, 1.0), st.sampled_from([0.1, 0.25, 0.5, 1.0]))))
    return c


@st.composite
def species_cases(draw, tier):
    c = draw(gen.hop_systems(tier=tier, framework=True, max_frames=6 if tier == 'quick' else 15, max_diff=3))
    _rdf_params(draw, c)
    c['merge'] = draw(st.one_of(st.none(), st.lists(st.integers(0, 1), min_size=1, max_size=6)))  # atom order: diffusers first, or interleaved with the other species
    kinds = sorted(set(['Li'] + c['framework']['symbols']))
    pick = st.one_of(st.sampled_from(kinds), st.lists(st.sampled_from(kinds), min_size=1, max_size=2, unique=True))
    c['specie_1'], c['specie_2'] = draw(pick), draw(pick)
    c['species_kind'] = draw(st.sampled_from(['Species', 'Element']))
    return c


@st.composite
def state_cases(draw, tier):
    c = draw(gen.hop_systems(tier=tier, framework=True, min_sites=2, max_sites=5, max_frames=10 if tier == 'quick' else 25, max_diff=3, radius_modes=('float',), min_labels=2))
    c['decoy'] = draw(st.booleans())
    c['merge'] = draw(st.one_of(st.none(), st.lists(st.integers(0, 1), min_size=1, max_size=6)))
    c['species_kind'] = draw(st.sampled_from(['Species', 'Element', 'Species-mixed', 'Species-mixed']))
    return _rdf_params(draw, c)


LONG_T = [999, 1000, 1001, 1024, 1300, 1999, 2000, 2001, 2500, 3000, 4096, 4097]


@st.composite
def long_species_cases(draw, tier):
    c = draw(species_cases(tier))
    c['tile_to'] = draw(st.sampled_from(LONG_T + ([8193, 10001] if tier == 'thorough' else [])))
    return c


@st.composite
def long_state_cases(draw, tier):
    c = draw(state_cases(tier))
    c['tile_to'] = draw(st.sampled_from(LONG_T))
    c['decoy'] = False
    return c


SUBS = [
    Sub(name='between-species', kind='hyp', run=run_species, strategy=species_cases,
        rule='species pair (str or list) RDF vs histogram of brute-force minimum-image distances on the same edges, shell normalisation undone with own formula, raw counts symmetric',
        n={'quick': 120, 'thorough': 2500}, shards={'quick': 8, 'thorough': 16}),
    Sub(name='per-state', kind='hyp', run=run_states, strategy=state_cases,
        rule='per-state RDFs from a real Transitions object: every (frame, diffuser, atom) pair within the cut-off in exactly one (state class, bin); "@L" only frames at a site labelled L, "X->Y" only frames between X and Y',
        n={'quick': 100, 'thorough': 2000}, shards={'quick': 8, 'thorough': 16}),
    Sub(name='long-runs-between-species', kind='hyp', shrink=False, run=run_species, strategy=long_species_cases,
        rule='the between-species systems repeated cyclically to 999 - 4097 (10 001) frames (round numbers and their neighbours): same clauses on runs longer than any internal block size',
        n={'quick': 5, 'thorough': 40}, shards={'quick': 6, 'thorough': 16}),
    Sub(name='long-runs-per-state', kind='hyp', shrink=False, run=run_states, strategy=long_state_cases,
        rule='the per-state systems repeated cyclically to 999 - 4097 frames: same partition clauses on long runs',
        n={'quick': 3, 'thorough': 25}, shards={'quick': 6, 'thorough': 16}),
]
