"""C12  Collective jumps are exactly the close-in-time/space pairs of different atoms."""
from __future__ import annotations

import math
import types

import numpy as np
import pandas as pd
from hypothesis import strategies as st

from .. import cases, gen, oracle, sitesys
from ..runner import Raised, Skip, Sub, Violation, gcall

PROPERTY = 'C12'
LEVEL = 'exploration'
RULE = ('cases are jump tables (1-25 rows, per-atom sequential jumps with short and very long transit times) over generated site geometries with a '
        'window 0-20 and a cut-off 0.3-5 A, handed to Collective exactly as Jumps.collective does; non-trivial = at least one collective pair; the label '
        '"pair-behind-early-exit" marks tables in which a required pair lies behind a row that already starts later than the window')
ASSUMPTIONS = [
    'distance guard band 1e-9 A (two independent float64 routes to the same minimum-image distance)',
    'rows of one atom do not overlap in time (a jump starts no earlier than the previous one stopped), so rows are unique',
    'window length formula compared only when 1/(frequency x time step) is not within 1e-9 of an integer',
]
JCOLS = ['atom index', 'start site', 'destination site', 'start time', 'stop time']


class JumpsStub:
    """stands in for a Jumps object: Collective only reads `.data` (a plain class so that it can be weakly referenced like Jumps)"""

    def __init__(self, data):
        self.data = data


def make_table(rows):
    return pd.DataFrame(data=np.array(rows, dtype=int).reshape(-1, 5), columns=JCOLS)


def check_collective(coll, rows, site_frac, M, window, cutoff):
    must, may = oracle.collective_model(rows, site_frac, M, window, cutoff)
    index = {tuple(r): k for k, r in enumerate(rows)}
    got = []
    for ei, ej in coll.collective:
        ki, kj = index.get(tuple(int(ei[c]) for c in JCOLS)), index.get(tuple(int(ej[c]) for c in JCOLS))
        if ki is None or kj is None:
            raise Violation('reported-pair-is-a-pair-of-jumps', f'{dict(ei)} / {dict(ej)}')
        got.append(frozenset((ki, kj)))
    if len(set(got)) != len(got):
        raise Violation('each-pair-once', f'{[sorted(p) for p in got]}')
    for p in got:
        if len(p) != 2:
            raise Violation('pair-of-different-jumps', f'{sorted(p)}')
    gs = set(got)
    missing = must - gs
    extra = gs - must - may
    if missing:
        i, j = sorted(sorted(missing, key=sorted)[0])
        raise Violation('close-pair-not-reported', f'jumps {rows[i]} and {rows[j]} (atom, origin, dest, start, stop) are by different atoms, within the window {window} and within {cutoff} A but are not reported; {len(gs)} pairs reported, {len(must)} required')
    if extra:
        i, j = sorted(sorted(extra, key=sorted)[0])
        why = 'same atom' if rows[i][0] == rows[j][0] else ('outside window' if (rows[j][3] - rows[i][4] > window or rows[i][3] - rows[j][4] > window) else 'too far apart')
        raise Violation('reported-pair-not-collective', f'jumps {rows[i]} and {rows[j]} reported but {why} (window {window}, cut-off {cutoff})')
    n = len(rows)
    in_pair = set().union(*gs) if gs else set()
    if coll.n_coll_jumps != len(in_pair) or coll.n_solo_jumps + coll.n_coll_jumps != n:
        raise Violation('solo-plus-collective-is-total', f'solo {coll.n_solo_jumps} + collective {coll.n_coll_jumps} vs {n} jumps, {len(in_pair)} jumps are in a pair')
    if len(coll.coll_jumps) != len(coll.collective):
        raise Violation('coll-jumps-per-pair', f'{len(coll.coll_jumps)} vs {len(coll.collective)}')
    for (a, b), (ei, ej) in zip(coll.coll_jumps, coll.collective):
        if (int(a[0]), int(a[1])) != (int(ei['start site']), int(ei['destination site'])) or (int(b[0]), int(b[1])) != (int(ej['start site']), int(ej['destination site'])):
            raise Violation('coll-jumps-sites', f'{a},{b}')
    # label: a required pair lies behind a row that starts later than the window (sorted by stop, start)
    order = sorted(range(n), key=lambda k: (rows[k][4], rows[k][3]))
    behind = False
    for a, i in enumerate(order):
        blocked = False
        for j in order[a + 1:]:
            if rows[j][3] - rows[i][4] > window:
                blocked = True
            elif blocked and frozenset((i, j)) in must:
                behind = True
    return must, behind


def run_table(case):
    from gemdat.collective import Collective

    M = np.array(case['lattice']['matrix'])
    rows = [tuple(r) for r in case['rows']]
    sites = cases.sites_structure(M, case['sites']['frac'], case['sites']['labels'])
    table = make_table(rows)
    im = case.get('index_mode', 'range')
    if im != 'range':
        # the table may come with any row labels (a filtered / concatenated / label-preserving sorted frame)
        if 'sorted' in im:
            table = table.sort_values(['stop time', 'start time'])
        if 'shifted' in im:
            table.index = table.index + 7
        elif 'reversed' in im:
            table.index = list(range(len(table)))[::-1]
    co = case.get('column_order')
    if co:
        # the same named columns in another order (a table assembled by a user-supplied conversion method, from records, ...)
        cols = list(table.columns)
        table = table[[cols[k] for k in co if k < len(cols)] + [c for i, c in enumerate(cols) if i not in co]]
    stub = JumpsStub(table)
    coll = gcall(Collective, jumps=stub, sites=sites, lattice=cases.lattice(case['lattice']), max_steps=case['window'], max_dist=case['cutoff'])
    must, behind = check_collective(coll, rows, case['sites']['frac'], M, case['window'], case['cutoff'])
    spm = np.asarray(gcall(coll.site_pair_count_matrix))
    if int(spm.sum()) != len(coll.coll_jumps):
        raise Violation('site-pair-count-matrix-total', f'{int(spm.sum())} vs {len(coll.coll_jumps)}')
    labels = [case['lattice']['family']]
    if behind:
        labels.append('pair-behind-early-exit')
    if any(r[4] - r[3] > case['window'] + 1 for r in rows):
        labels.append('long-transit')
    if must:
        labels.append('has-collective')
    return {'nontrivial': bool(must), 'labels': labels}


def run_pipeline(case):
    M = np.array(case['lattice']['matrix'])
    want, _ = sitesys.expected_states(case)
    if (want == -2).any() or not (want[1:] != want[:-1]).any():
        raise Skip()
    from gemdat.jumps import Jumps

    traj = sitesys.full_trajectory(case)
    tr = gcall(traj.transitions_between_sites, sitesys.sites(case), 'Li', site_radius=sitesys.radius_arg(case), site_inner_fraction=case['inner_fraction'])
    for obj in (traj, tr.trajectory, tr.diff_trajectory):
        cases.prelude(obj, case.get('prelude'))
    j = gcall(Jumps, tr, allow=(ValueError,))
    if isinstance(j, Raised):
        raise Skip()
    nu = float(gcall(gcall(j.trajectory.metrics).attempt_frequency)[0])
    if not np.isfinite(nu) or nu <= 0:
        raise Skip()
    cutoff = case['cutoff']
    coll = gcall(j.collective, cutoff)
    x = 1.0 / (nu * case['time_step'])
    labels = [case['lattice']['family']]
    if abs(x - round(x)) > 1e-9:
        if coll.max_steps != math.ceil(x):
            raise Violation('window-is-ceil-of-attempt-period', f'max_steps {coll.max_steps} vs ceil(1/(nu dt)) = {math.ceil(x)}')
    if coll.max_dist != cutoff:
        raise Violation('cut-off-passed-through', f'{coll.max_dist} vs {cutoff}')
    rows = [tuple(int(v) for v in r) for r in j.data[JCOLS].to_numpy()]
    must, behind = check_collective(coll, rows, case['sites']['frac'], M, coll.max_steps, cutoff)
    if j.n_solo_jumps != coll.n_solo_jumps and cutoff == 1:
        raise Violation('n-solo-jumps', '')
    if must:
        labels.append('has-collective')
    return {'nontrivial': bool(must), 'labels': labels}


@st.composite
def table_cases(draw, tier):
    lat = draw(gen.lattices())
    M = np.array(lat['matrix'])
    sites = draw(gen.site_sets(M, n_min=2, n_max=6, min_sep=0.8))
    S = len(sites['frac'])
    n_atoms = draw(st.integers(1, 5))
    window = draw(st.sampled_from([0, 1, 2, 3, 5, 10, 20]))
    rows = []
    for a in range(n_atoms):
        t = draw(st.integers(0, 15))
        site = draw(st.integers(0, S - 1))
        for _ in range(draw(st.integers(0, 6))):
            if len(rows) >= 25:
                break
            dest = draw(st.integers(0, S - 2))
            dest = dest + 1 if dest >= site else dest
            transit = draw(st.sampled_from([1, 1, 1, 2, 3, window + 1, 2 * window + 3, 40]))
            rows.append([a, site, dest, t, t + transit])
            site = dest
            t = t + transit + draw(st.sampled_from([0, 0, 1, 2, 5, window, window + 1, 30]))
    if not rows:
        rows.append([0, 0, 1 % S if S > 1 else 0, 0, 1])
    # cut-off: free, or right at a site-site distance (guard band decides)
    D = oracle.min_image_dist(sites['frac'], sites['frac'], M)
    dd = sorted(set(np.round(D[np.triu_indices(S, 1)], 6).tolist()))
    cutoff = draw(st.one_of(st.floats(0.3, 5.0), st.sampled_from(dd).map(lambda x: x + 0.05), st.sampled_from(dd).map(lambda x: max(0.05, x - 0.05)),
                            st.sampled_from(dd).map(lambda x: x * (1 + 2e-8)), st.sampled_from(dd).map(lambda x: x * (1 - 2e-8))))  # ... and a hair beside a site-site distance (decisive in double precision)
    order = draw(st.permutations(list(range(len(rows)))))
    index_mode = draw(st.sampled_from(['range', 'range', 'shifted', 'reversed', 'sorted', 'sorted-shifted', 'sorted-reversed']))
    return {'index_mode': index_mode, 'column_order': draw(st.one_of(st.none(), st.none(), st.permutations([0, 1, 2, 3, 4]))), 'lattice': lat, 'sites': {'frac': sites['frac'], 'labels': sites['labels']}, 'rows': [rows[k] for k in order], 'window': window, 'cutoff': float(cutoff)}


@st.composite
def pipeline_cases(draw, tier):
    c = draw(gen.hop_systems(tier=tier, min_sites=2, max_sites=5, max_diff=3, max_frames=16 if tier == 'quick' else 40))
    M_ = np.array(c['lattice']['matrix'])
    D_ = oracle.min_image_dist(c['sites']['frac'], c['sites']['frac'], M_)
    dd_ = sorted(set(np.round(D_[np.triu_indices(len(D_), 1)], 6).tolist()))
    c['cutoff'] = draw(st.one_of(st.sampled_from([1, 1, 2.5, 6.0]), st.sampled_from(dd_).map(lambda x: float(x * 1.02)), st.sampled_from(dd_).map(lambda x: float(x * 0.98))))
    c['sites_cell_scale'] = draw(st.sampled_from([1.0, 1.0, 0.96, 1.04]))
    return c


# complete enumeration of small tables: 2 atoms, one or two jumps each among 3 sites on a line, times in 0..5
_GEO = {'lattice': {'family': 'cubic', 'orient': 'lower', 'params': [9, 9, 9, 90, 90, 90], 'matrix': [[9.0, 0, 0], [0, 9.0, 0], [0, 0, 9.0]]},
        'sites': {'frac': [[0.05, 0.5, 0.5], [0.25, 0.5, 0.5], [0.9, 0.5, 0.5]], 'labels': ['A', 'B', 'A']}}


def _single_jumps():
    out = []
    for o in range(3):
        for d in range(3):
            if o != d:
                for s_ in range(0, 5):
                    for e in range(s_ + 1, 6):
                        out.append((o, d, s_, e))
    return out


_SJ = _single_jumps()  # 90 possible jumps of one atom
_WC = [(w, c) for w in (0, 1, 2) for c in (1.0, 2.0, 3.0)]


def small_size(tier):
    n = len(_SJ)
    return n * n * len(_WC) if tier == 'quick' else n * n * len(_WC) * 3


def small_case(tier, idx):
    n = len(_SJ)
    wc = _WC[idx % len(_WC)]
    idx //= len(_WC)
    j0, j1 = _SJ[idx % n], _SJ[(idx // n) % n]
    extra = (idx // (n * n)) % 3
    rows = [[0, *j0], [1, *j1]]
    if extra == 1:  # a second, later jump of atom 0 back to where it came from
        rows.append([0, j0[1], j0[0], j0[3] + 1, j0[3] + 3])
    elif extra == 2:  # a third atom with a long transit spanning everything
        rows.append([2, 2, 0, 0, 9])
    return dict(_GEO, rows=rows, window=wc[0], cutoff=wc[1])


# ----------------------------------------------------------------------------- one jump with hundreds of partners
CROWD = {'quick': [255, 256, 257, 300, 511, 512, 513], 'thorough': [255, 256, 257, 300, 511, 512, 513, 767, 768, 1023, 1024, 1025, 1300]}


def crowd_size(tier):
    return len(CROWD[tier]) * 2


def crowd_case(tier, idx):
    """a long-transit hub jump overlapping P quick jumps of 2-5 other atoms (spaced so that the quick jumps pair only with the hub)"""
    P = CROWD[tier][idx // 2]
    n_other = [2, 5][idx % 2]
    rows = [(0, 0, 1, 0, 3 * P + 5)]
    where = {}
    for k in range(P):
        a = 1 + k % n_other
        s = where.get(a, 2)
        d = 3 if s == 2 else 2
        where[a] = d
        rows.append((a, s, d, 3 * k + 1, 3 * k + 2))
    lat = gen.fixed_lattice(['cubic', 'triclinic', 'hexagonal'][idx % 3], 'lower')
    frac = [[0.05, 0.05, 0.05], [0.15, 0.05, 0.05], [0.05, 0.15, 0.05], [0.95, 0.95, 0.05]]  # all within ~1.5 A of each other (one through the cell face)
    return {'lattice': lat, 'rows': rows, 'sites': {'frac': frac, 'labels': ['A', 'A', 'B', 'B']}, 'window': 1, 'cutoff': 2.5, 'index_mode': ['range', 'sorted-shifted'][idx % 2]}


def run_crowd(case):
    info = run_table(case)
    P = len(case['rows']) - 1
    info['labels'] = info['labels'] + [f'partners={P}']
    info['count'] = P + 1
    return info


SUBS = [
    Sub(name='tables', kind='hyp', run=run_table, strategy=table_cases,
        rule='1-5 atoms, <=25 sequential jumps with transits 1..40 (incl. window+1, 2*window+3), window in {0,1,2,3,5,10,20}, cut-off free or 0.05 A beside a site-site distance, rows in random order; reported pairs vs O(n^2) model',
        n={'quick': 200, 'thorough': 5000}, shards={'quick': 12, 'thorough': 16}),
    Sub(name='pipeline', kind='hyp', run=run_pipeline, strategy=pipeline_cases,
        rule='hopping trajectories through transitions/Jumps/collective(max_dist): window = ceil(1/(attempt frequency x time step)), pairs vs model on the real jump table',
        n={'quick': 80, 'thorough': 1000}, shards={'quick': 8, 'thorough': 16}),
    Sub(name='fuzz-collective', kind='fuzz', run=run_table, target='collective',
        rule='thorough tier only: atheris (libFuzzer) coverage-guided campaign on the Python-level classifier with the property oracle inside the target; bytes are decoded into a structured case; empty and seeded corpus shards; non-trivial counted but not de-duplicated',
        n={'quick': 0, 'thorough': 60000}, shards={'quick': 1, 'thorough': 16}),
    Sub(name='enum-small-tables', kind='enum', run=run_table, size=small_size, case_at=small_case, exhaustive=True,
        rule='complete enumeration: every pair of single jumps of two atoms among 3 collinear sites with start < stop in 0..5 (90 x 90), windows 0-2, cut-offs 1/2/3 A (site distances 1.8, 1.35 through the cell face, 3.15); thorough adds a return jump and a long-transit third atom',
        shards={'quick': 16, 'thorough': 16}),
    Sub(name='crowded-tables', kind='enum', run=run_crowd, size=crowd_size, case_at=crowd_case, exhaustive=True,
        rule='complete enumeration of a small family: one long-transit jump that is a collective partner of P quick jumps of 2 / 5 other atoms, P in {255, 256, 257, 300, 511, 512, 513} (quick) + {767 .. 1300} (thorough); pairs, solo / collective counts and the site-pair matrix vs the O(n^2) model (counter widths, per-jump partner bookkeeping); each jump is one evaluation',
        shards={'quick': 14, 'thorough': 16}),
]
