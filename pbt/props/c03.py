"""C03  Transition events are a faithful, complete change-log of the site states."""
from __future__ import annotations

import collections

import numpy as np
from hypothesis import strategies as st

from .. import oracle
from ..runner import Skip, Sub, Violation, gcall

PROPERTY = 'C03'
LEVEL = 'exploration'
RULE = ('cases are (outer, inner) site histories with inner in {none, outer}; non-trivial = at least one change of '
        'outer or inner state (constant histories are outside the property and skipped)')
ASSUMPTIONS = [
    'inner state is always "none" or equal to the outer state (the invariant C02 establishes for real data)',
    'histories with no change at all are outside the property ("at least one change") and are skipped',
    'bounded enumeration: completeness only up to the stated history length / site count / atom count',
]

COLS = ['atom index', 'start site', 'destination site', 'start inner site', 'destination inner site', 'time']


# ----------------------------------------------------------------------------- symbols
def symbols(n_sites):
    """per-frame symbol -> (outer, inner)"""
    syms = [(-1, -1)]
    for s in range(n_sites):
        syms.append((s, s))
        syms.append((s, -1))
    return syms


def decode(idx, base, length):
    out = []
    for _ in range(length):
        out.append(idx % base)
        idx //= base
    return out


class Enum:
    """All histories of `n_atoms` atoms over `n_sites` sites with 2 <= length <= L[tier]."""

    def __init__(self, n_atoms, n_sites, L):
        self.n_atoms, self.n_sites, self.L = n_atoms, n_sites, L
        self.syms = symbols(n_sites)
        self.base = len(self.syms) ** n_atoms

    def size(self, tier):
        return sum(self.base**ln for ln in range(2, self.L[tier] + 1))

    def case_at(self, tier, idx):
        for ln in range(2, self.L[tier] + 1):
            if idx < self.base**ln:
                break
            idx -= self.base**ln
        frames = decode(idx, self.base, ln)
        k = len(self.syms)
        states, inner = [], []
        for f in frames:
            per_atom = decode(f, k, self.n_atoms)
            states.append([self.syms[s][0] for s in per_atom])
            inner.append([self.syms[s][1] for s in per_atom])
        return {'states': states, 'inner': inner}


_SITES = {}


def dummy_sites(n):
    from pymatgen.core import Structure

    if n not in _SITES:
        _SITES[n] = Structure(lattice=np.eye(3) * 10, species=['Li'] * n, coords=[[i / (n + 1), 0, 0] for i in range(n)], labels=['A'] * n)
    return _SITES[n]


def check_events(states, inner, events, prefix=''):
    """rows of the table == model rows, each exactly once; replay reconstructs both histories."""
    if list(events.columns) != COLS:
        raise Violation(prefix + 'columns', f'{list(events.columns)}')
    got = collections.Counter(tuple(int(x) for x in row) for row in events[COLS].to_numpy())
    want = oracle.events_model(states, inner)
    dup = [r for r, c in got.items() if c > 1]
    if dup:
        raise Violation(prefix + 'one-row-per-change', f'row repeated: {dup[0]}')
    missing = want - set(got)
    spurious = set(got) - want
    if missing:
        r = sorted(missing)[0]
        outer_change = r[1] != r[2]
        raise Violation(prefix + ('missing-row-outer-change' if outer_change else 'missing-row-inner-change'), f'no row for (atom,start,dest,start_in,dest_in,t)={r}; table has {sorted(got)[:6]}')
    if spurious:
        raise Violation(prefix + 'spurious-row', f'row {sorted(spurious)[0]} is not a change of the history')
    # replay
    T, N = states.shape
    by_atom = collections.defaultdict(dict)
    for r in got:
        by_atom[r[0]][r[5]] = r
    for a in range(N):
        cur, cur_in = int(states[0, a]), int(inner[0, a])
        for t in range(T - 1):
            r = by_atom[a].get(t)
            if r is not None:
                if (r[1], r[3]) != (cur, cur_in):
                    raise Violation(prefix + 'replay', f'row {r} does not start from the replayed state {(cur, cur_in)}')
                cur, cur_in = r[2], r[4]
            if cur != states[t + 1, a] or cur_in != inner[t + 1, a]:
                raise Violation(prefix + 'replay', f'atom {a}: replay gives {(cur, cur_in)} at frame {t + 1}, history has {(int(states[t + 1, a]), int(inner[t + 1, a]))}')


def run(case):
    from gemdat.transitions import Transitions, _calculate_transition_events

    states = np.array(case['states'], dtype=int)
    inner = np.array(case['inner'], dtype=int)
    T, N = states.shape
    n_changes = int(np.sum(states[1:] != states[:-1]) + np.sum((inner[1:] != inner[:-1]) & (states[1:] == states[:-1])))
    if n_changes == 0:
        raise Skip()
    s_in, i_in = states.copy(), inner.copy()
    events = gcall(_calculate_transition_events, atom_sites=states, atom_inner_sites=inner, clause='never-fails-with-a-change')
    if not (np.array_equal(states, s_in) and np.array_equal(inner, i_in)):
        raise Violation('inputs-mutated', 'the state arrays were modified by the event builder')
    check_events(states, inner, events)

    n_sites = int(max(states.max(), 0)) + 1
    tr = Transitions(trajectory=None, diff_trajectory=None, sites=dummy_sites(n_sites), events=events, states=states, inner_states=inner)
    # the two views in a case-dependent order, each asked more than once (neither may disturb the other or itself)
    order = [['prev', 'next', 'prev', 'next'], ['next', 'prev', 'next', 'prev'], ['next', 'next', 'prev', 'prev']][(int(np.abs(states).sum()) + int(np.abs(inner).sum()) + T) % 3]
    for k_, which in enumerate(order):
        if which == 'prev':
            prev = gcall(tr.states_prev)
            if not np.array_equal(prev, oracle.ffill_model(states)):
                raise Violation('states-prev', f'got {np.asarray(prev).T.tolist()} want {oracle.ffill_model(states).T.tolist()} (views asked in the order {order[:k_ + 1]})')
        else:
            nxt = gcall(tr.states_next)
            if not np.array_equal(nxt, oracle.bfill_model(states)):
                raise Violation('states-next', f'got {np.asarray(nxt).T.tolist()} want {oracle.bfill_model(states).T.tolist()} (views asked in the order {order[:k_ + 1]})')
    if not np.array_equal(states, s_in):
        raise Violation('inputs-mutated', 'states modified by states_prev/states_next')

    labels = []
    outer_change = states[1:] != states[:-1]
    if outer_change[0].any() or (inner[1] != inner[0]).any():
        labels.append('change-at-first-frame')
    if outer_change[-1].any() or (inner[-1] != inner[-2]).any():
        labels.append('change-at-last-frame')
    per_atom_out = outer_change.any(axis=0)
    per_atom_in = (inner[1:] != inner[:-1]).any(axis=0)
    if (~per_atom_out & ~per_atom_in).any():
        labels.append('atom-never-moves')
    if (per_atom_out & (inner == -1).all(axis=0)).any():
        labels.append('atom-moves-never-inner')
    if (~per_atom_out & per_atom_in).any():
        labels.append('inner-only-changes-at-constant-site')
    if (outer_change & (states[1:] != -1) & (states[:-1] != -1)).any():
        labels.append('direct-site-to-site')
    if N > 1:
        labels.append('multi-atom')
    return {'nontrivial': True, 'labels': labels}


# ----------------------------------------------------------------------------- random long histories
@st.composite
def histories(draw, max_atoms=6, max_frames=200, max_sites=8, tier='quick'):
    n_atoms = draw(st.integers(1, max_atoms))
    n_sites = draw(st.integers(1, max_sites))
    T = draw(st.one_of(st.integers(2, 12), st.integers(2, max_frames)))
    syms = symbols(n_sites)
    dwell = st.sampled_from([1, 1, 1, 2, 3, 5, 10, 50])
    states, inner = [], []
    for _a in range(n_atoms):
        modes = ['mixed', 'mixed', 'mixed', 'never-inner', 'inner-only']
        mode = draw(st.sampled_from(modes if _a == 0 else modes + ['constant']))
        col = []
        if mode == 'constant':
            col = [syms[draw(st.integers(0, len(syms) - 1))]] * T
        elif mode == 'inner-only':
            s = draw(st.integers(0, n_sites - 1))
            flip = draw(st.booleans())
            while len(col) < T:
                flip = not flip
                col.extend([(s, s if flip else -1)] * (draw(dwell) if col else draw(st.integers(1, T - 1))))
        else:
            last = None
            while len(col) < T:
                k = draw(st.integers(0, len(syms) - (1 if last is None else 2)))
                if last is not None and k >= last:
                    k += 1  # consecutive segments always differ
                last = k
                sym = syms[k]
                if mode == 'never-inner':
                    sym = (sym[0], -1)
                col.extend([sym] * (draw(dwell) if col else draw(st.integers(1, T - 1))))
        col = col[:T]
        states.append([c[0] for c in col])
        inner.append([c[1] for c in col])
    return {'states': np.array(states).T.tolist(), 'inner': np.array(inner).T.tolist()}


# ----------------------------------------------------------------------------- very long trajectories through the public pipeline
LONG_SITES = [[0.1, 0.1, 0.1], [0.6, 0.1, 0.1], [0.1, 0.6, 0.6]]


def long_arrays(case):
    """planned (outer, inner) histories and the coordinates that realise them in a 10 A cubic cell (radius 1.0, inner fraction 0.5)"""
    T, N = case['frames'], len(case['plans'])
    states = np.full((T, N), -1)
    inner = np.full((T, N), -1)
    coords = np.zeros((T, N, 3))
    for a, plan in enumerate(case['plans']):
        t = 0
        k = 0
        while t < T:
            site, where, dwell = plan[k % len(plan)]
            k += 1
            e = min(T, t + dwell)
            if site < 0:
                coords[t:e, a] = [0.35 + 0.01 * a, 0.85, 0.35]
            else:
                off = {'deep': 0.01, 'shell': 0.075}[where]  # 0.1 A / 0.75 A from the centre along x
                coords[t:e, a] = np.array(LONG_SITES[site]) + [off, 0.0, 0.002 * a]
                states[t:e, a] = site
                if where == 'deep':
                    inner[t:e, a] = site
            t = e
    return states, inner, coords


def run_long(case, want_jumps=False):
    from .. import cases

    states, inner, coords = long_arrays(case)
    T, N = states.shape
    traj = cases.trajectory(coords, ['Li'] * N, np.eye(3) * 10.0, 1e-15, 300.0)
    sites = cases.sites_structure(np.eye(3) * 10.0, LONG_SITES, ['A', 'B', 'A'])
    tr = gcall(traj.transitions_between_sites, sites, 'Li', site_radius=1.0, site_inner_fraction=0.5)
    if not np.array_equal(np.asarray(tr.states), states) or not np.array_equal(np.asarray(tr.inner_states), inner):
        bad = np.argwhere(np.asarray(tr.states) != states)
        raise Violation('long-trajectory-states', f'{T} frames: states differ from the planned history' + (f' first at frame {bad[0][0]}' if len(bad) else ' (inner)'))
    check_events(states, inner, tr.events, prefix='long-trajectory-')
    prev, nxt = np.asarray(gcall(tr.states_prev)), np.asarray(gcall(tr.states_next))
    for got, want, name in ((prev, oracle.ffill_model(states), 'states-prev'), (nxt, oracle.bfill_model(states), 'states-next')):
        if not np.array_equal(got, want):
            f, a = np.argwhere(got != want)[0]
            raise Violation('long-trajectory-' + name, f'{T} frames: frame {f} atom {a}: got {int(got[f, a])}, expected {int(want[f, a])}')
    return {'nontrivial': True, 'labels': [f'frames>{(T // 10000) * 10000}'], 'tr': tr, 'states': states}


def run_long_events(case):
    info = run_long(case)
    return {'nontrivial': True, 'labels': info['labels']}


@st.composite
def long_cases(draw, tier):
    T = draw(st.sampled_from([33000, 40000, 70000] if tier == 'quick' else [33000, 40000, 70000, 140000]))
    n_atoms = draw(st.integers(1, 2))
    plans = []
    for _ in range(n_atoms):
        plan, last = [], None
        for _k in range(draw(st.integers(3, 8))):
            site = draw(st.sampled_from([-1, 0, 1, 2]))
            if site == last:
                site = (site + 2) % 3 if site >= 0 else 0
            last = site
            plan.append([site, draw(st.sampled_from(['deep', 'shell'])), draw(st.sampled_from([1, 50, 700, 2500, 9000]))])
        plans.append(plan)
    return {'frames': T, 'plans': plans}


@st.composite
def wide_long_cases(draw, tier):
    """more than 2^20 (frame, atom) entries: 16-20 atoms x 70 000 - 150 000 frames (size-dependent code paths such as block-wise processing)"""
    T = draw(st.sampled_from([70000, 110000] if tier == 'quick' else [70000, 110000, 150000, 230000]))
    n_atoms = draw(st.sampled_from([16, 20]))
    base = []
    for _ in range(3):
        plan, last = [], None
        for _k in range(draw(st.integers(3, 7))):
            site = draw(st.sampled_from([-1, 0, 1, 2, -1]))
            if site == last:
                site = (site + 2) % 3 if site >= 0 else 0
            last = site
            plan.append([site, draw(st.sampled_from(['deep', 'shell'])), draw(st.sampled_from([1, 50, 700, 2500, 9000, 30011]))])
        base.append(plan)
    plans = []
    for a in range(n_atoms):
        pl = base[a % 3]
        r = a % len(pl)
        plans.append(pl[r:] + pl[:r])
    return {'frames': T, 'plans': plans}


E1 = Enum(1, 3, {'quick': 5, 'thorough': 7})
E2 = Enum(2, 2, {'quick': 3, 'thorough': 4})

# ----------------------------------------------------------------------------- many atoms (atom-count dependent code paths)
MANY_ATOMS = [255, 256, 257, 300, 511, 512, 513, 700]


def many_history(case):
    """deterministic (outer, inner) history of many atoms over 3 sites: every atom has its own dwell time and phase"""
    N, T, k = case['atoms'], case['frames'], case['k']
    t_ = np.arange(T).reshape(T, 1)
    a_ = np.arange(N).reshape(1, N)
    dwell = 1 + (a_ + k) % 3
    states = (((a_ * 2654435761 + (t_ // dwell) * 40503 + k * 97) >> 3) % 4 - 1).astype(int)
    inner = np.where((a_ + t_ + k) % 3 != 0, states, -1).astype(int)
    return states, inner


def many_size(tier):
    return len(MANY_ATOMS) * (2 if tier == 'quick' else 6)


def many_case(tier, idx):
    return {'atoms': MANY_ATOMS[idx % len(MANY_ATOMS)], 'frames': 3 + idx % 5, 'k': idx // len(MANY_ATOMS)}


def run_many(case):
    states, inner = many_history(case)
    info = run({'states': states.tolist(), 'inner': inner.tolist()})
    N = case['atoms']
    info['labels'] = list(info.get('labels', [])) + [f'atoms>{256 * (N // 256)}' if N % 256 else 'atoms-multiple-of-256']
    info['count'] = N
    return info


SUBS = [
    Sub(name='enum-1atom-3sites', kind='enum', run=run, size=E1.size, case_at=E1.case_at, exhaustive=True,
        rule='complete enumeration of all one-atom histories over <=3 sites (7 symbols/frame), length 2..5 (quick) / 2..7 (thorough)',
        shards={'quick': 8, 'thorough': 16}),
    Sub(name='enum-2atoms-2sites', kind='enum', run=run, size=E2.size, case_at=E2.case_at, exhaustive=True,
        rule='complete enumeration of all two-atom histories over 2 sites (25 joint symbols/frame), length 2..3 (quick) / 2..4 (thorough)',
        shards={'quick': 8, 'thorough': 16}),
    Sub(name='enum-many-atoms', kind='enum', run=run_many, size=many_size, case_at=many_case, exhaustive=True,
        rule='small family, complete: deterministic (outer, inner) histories of 255 - 700 atoms (around multiples of 256) x 3-7 frames over 3 sites, every atom with its own dwell time and phase; all event-table and view clauses (each atom is one evaluation)',
        shards={'quick': 8, 'thorough': 16}),
    Sub(name='random-long', kind='hyp', run=run, strategy=lambda tier: histories(tier=tier),
        rule='1-6 atoms x 2-200 frames x <=8 sites, dwell-time parametrised; atoms that never move / never enter an inner site / only change inner state',
        n={'quick': 400, 'thorough': 8000}, shards={'quick': 4, 'thorough': 16}),
    Sub(name='long-pipeline', kind='hyp', shrink=False, run=run_long_events, strategy=long_cases,
        rule='trajectories of 33 000 - 70 000 (140 000) frames through Trajectory.transitions_between_sites: planned (outer, inner) histories with dwell 1-9000 realised as coordinates; states, event table and previous/next views vs the models (index and time widths beyond 2^15 frames)',
        n={'quick': 2, 'thorough': 12}, shards={'quick': 6, 'thorough': 16}),
    Sub(name='wide-long-pipeline', kind='hyp', shrink=False, run=run_long_events, strategy=wide_long_cases,
        rule='16-20 atoms x 70 000 - 110 000 (230 000) frames, i.e. 1.1 - 2.2 (4.6) million (frame, atom) entries, through transitions_between_sites: states, event table and previous/next views vs the models (code paths that depend on the array size)',
        n={'quick': 2, 'thorough': 3}, shards={'quick': 4, 'thorough': 16}),
]
