"""C15  Select/slice/split/extend and read-only queries never alter the data (stateful)."""
from __future__ import annotations

import numpy as np
from hypothesis import strategies as st
from hypothesis.stateful import initialize, precondition, rule

from .. import cases, gen, oracle
from ..runner import Raised, Skip, Sub, Violation, gcall, log_machine_base, replay_log

PROPERTY = 'C15'
LEVEL = 'exploration'
RULE = ('cases are histories (operation sequences) over a pool of live trajectories, each paired with a plain-array model; '
        'non-trivial = the history contains a switch to the displacement representation followed by a derive '
        '(filter / slice / split / extend) and a later read of a trajectory')
ASSUMPTIONS = [
    'constant-cell trajectories; every history starts from one generated base trajectory',
    'the in-between state is inspected without switching representation (coords, coords_are_displacement, base_positions of the pymatgen base class); every live trajectory is finally read through the public API',
    'only sequential histories; values of queries that need unwrapping are compared only when no model step is within 1e-6 of half a cell',
]
MAX_POOL = 8
QUERIES = ['positions', 'displacements', 'cumulative', 'distances', 'msd', 'diffusivity', 'speed', 'volume', 'drift', 'com', 'transitions',
           'drift_correct', 'structure', 'lattice', 'rdf', 'len', 'shape', 'free_energy', 'all_metrics', 'site_analysis', 'iterate']


class Model:
    def __init__(self, pos, symbols, matrix, dt, meta):
        self.pos = np.asarray(pos, float) % 1.0
        self.pos[self.pos == 1.0] = 0.0
        self.symbols = list(symbols)
        self.matrix = np.asarray(matrix, float)
        self.dt = dt
        self.meta = dict(meta)


def peek_positions(t):
    """positions implied by the current internal representation, without switching it"""
    c = np.array(t.coords, float)
    if t.coords_are_displacement:
        c = np.array(t.base_positions, float)[None] + np.cumsum(c, axis=0)
    return c


def agree(t, m: Model, where, public=False):
    if len(t) != len(m.pos):
        raise Violation('frames', f'{where}: {len(t)} frames, model has {len(m.pos)}')
    sp = [s.symbol for s in t.species]
    if sp != m.symbols:
        raise Violation('species-order', f'{where}: {sp} vs {m.symbols}')
    if np.abs(np.array(t.get_lattice().matrix) - m.matrix).max() > 1e-9:
        raise Violation('lattice', f'{where}: lattice matrix differs by {np.abs(np.array(t.get_lattice().matrix) - m.matrix).max():.3e}')
    if t.time_step != m.dt:
        raise Violation('time-step', f'{where}: {t.time_step} vs {m.dt}')
    if getattr(t, 'metadata', None) != m.meta:
        raise Violation('metadata', f'{where}: {getattr(t, "metadata", None)} vs {m.meta}')
    pos = np.array(gcall(lambda: t.positions)) if public else peek_positions(t)
    if pos.shape != m.pos.shape:
        raise Violation('positions-shape', f'{where}: {pos.shape} vs {m.pos.shape}')
    if public and pos.size and (pos.min() < 0 or pos.max() >= 1):
        raise Violation('positions-in-unit-cell', where)
    if pos.size:
        err = oracle.circ_diff(pos, m.pos)
        if err.max() > 1e-9:
            f, a, k = np.unravel_index(np.argmax(err), err.shape)
            raise Violation('positions-equal-model', f'{where}: frame {f} atom {a} axis {k}: {pos[f, a, k]!r} vs model {m.pos[f, a, k]!r}')


def unwrap(pos):
    d = pos[1:] - pos[:-1]
    r = np.round(d)
    d = d - r
    tie = bool(pos.shape[0] > 1 and np.any(np.abs(np.abs(d) - 0.5) < 1e-6))
    return np.concatenate([pos[:1] * 0, np.cumsum(d, axis=0)], axis=0), tie


LogMachine = log_machine_base()


class TrajMachine(LogMachine):
    def setup(self):
        self.pool = []  # [(traj, Model)]
        self.kept = []
        self.flags = {'disp_switch': False, 'derive_after_switch': False, 'read_after_derive': False, 'extend': 0, 'derive': 0}

    # ------------------------------------------------------------------ interpreter
    def apply(self, op):
        kind = op['op']
        if kind == 'init':
            c = op['case']
            path = np.array(c['path'], float)
            coords = path - np.floor(path) if c['form'] == 'wrapped' else path
            t = cases.trajectory(coords, c['symbols'], c['lattice']['matrix'], c['time_step'], c['temperature'], c['species_kind'])
            self.pool = [(t, Model(path, c['symbols'], c['lattice']['matrix'], c['time_step'], {'temperature': c['temperature']}))]
            self.sites = c['sites']
            self.kind = c['species_kind']
            return
        if not self.pool:
            raise Skip()
        i = op['i'] % len(self.pool)
        t, m = self.pool[i]
        getattr(self, 'op_' + kind)(op, i, t, m)
        for k, (tt, mm) in enumerate(self.pool):
            agree(tt, mm, f'after {kind} (trajectory #{k})')

    def add(self, t, m):
        if self.flags['disp_switch']:
            self.flags['derive_after_switch'] = True
        self.flags['derive'] += 1
        if len(self.pool) < MAX_POOL:
            self.pool.append((t, m))
        else:
            self.pool[1 + (self.flags['derive'] % (MAX_POOL - 1))] = (t, m)

    def op_read(self, op, i, t, m):
        what = op['what']
        T, N = m.pos.shape[:2]
        cum, tie = unwrap(m.pos)
        if self.flags['derive_after_switch']:
            self.flags['read_after_derive'] = True
        if what == 'positions':
            agree(t, m, 'positions query', public=True)
        elif what == 'len':
            if len(t) != T:
                raise Violation('frames', f'len {len(t)} vs {T}')
        elif what == 'displacements':
            d = np.array(gcall(lambda: t.displacements))
            self.flags['disp_switch'] = True
            if d.shape != m.pos.shape:
                raise Violation('query-value', f'displacements shape {d.shape}')
            if not tie and T > 0:
                want = np.concatenate([cum[:1], cum[1:] - cum[:-1]], axis=0)
                if np.abs(d - want).max() > 1e-9:
                    raise Violation('query-value', f'displacements differ from minimum-image frame differences of the data by {np.abs(d - want).max():.3e}')
        elif what == 'cumulative':
            c = np.array(gcall(lambda: t.cumulative_displacements))
            self.flags['disp_switch'] = True
            if not tie and np.abs(c - cum).max() > 1e-9:
                raise Violation('query-value', f'cumulative_displacements off by {np.abs(c - cum).max():.3e}')
        elif what == 'distances':
            d = np.array(gcall(t.distances_from_base_position))
            self.flags['disp_switch'] = True
            want = np.linalg.norm(cum @ m.matrix, axis=-1).T
            if d.shape != want.shape or (not tie and np.abs(d - want).max() > 1e-9 * max(1.0, want.max())):
                raise Violation('query-value', f'distances_from_base_position {d.shape} vs {want.shape}')
        elif what == 'msd':
            got = np.array(gcall(t.mean_squared_displacement))
            self.flags['disp_switch'] = True
            want = oracle.msd_direct(cum @ m.matrix)
            scale = max(float(np.sum(m.matrix**2, axis=1).max()), float(np.abs(want).max()) if want.size else 0)
            if got.shape != want.shape or (not tie and np.abs(got - want).max() > 1e-9 * scale):
                raise Violation('query-value', f'mean_squared_displacement shape {got.shape} vs {want.shape} / values')
        elif what == 'diffusivity':
            mo = gcall(t.metrics)
            if len(self.kept) < 2:
                self.kept.append(mo)  # a caller may well hold on to a metrics object while working with derived trajectories
            got = float(gcall(mo.tracer_diffusivity, dimensions=3))
            self.flags['disp_switch'] = True
            want = float(np.mean(np.sum((cum[-1] @ m.matrix) ** 2, axis=-1))) * 1e-20 / (6 * T * m.dt)
            if not tie and abs(got - want) > 1e-9 * max(abs(want), 1e-20 * float(np.sum(m.matrix**2, axis=1).max()) / (6 * T * m.dt)):
                raise Violation('query-value', f'tracer_diffusivity {got!r} vs {want!r} on a {T}-frame trajectory')
        elif what == 'speed':
            sp = np.array(gcall(gcall(t.metrics).speed))
            self.flags['disp_switch'] = True
            if sp.shape != (N, T):
                raise Violation('query-value', f'speed shape {sp.shape} vs {(N, T)}')
        elif what == 'volume':
            res = float(np.linalg.norm(m.matrix, axis=1).min()) / 2.5
            v = gcall(t.to_volume, resolution=res)
            if int(v.data.sum()) != T * N:
                raise Violation('query-value', f'volume holds {int(v.data.sum())} samples, trajectory has {T * N}')
        elif what == 'drift':
            d = np.array(gcall(t.drift))
            self.flags['disp_switch'] = True
            if d.shape != (T, 1, 3):
                raise Violation('query-value', f'drift shape {d.shape}')
        elif what == 'drift_correct':
            c = gcall(t.apply_drift_correction)
            self.flags['disp_switch'] = True
            if len(c) != T or [s.symbol for s in c.species] != m.symbols:
                raise Violation('query-value', 'apply_drift_correction changed frames/species')
        elif what == 'com':
            c = gcall(t.center_of_mass)
            self.flags['disp_switch'] = True
            if len(c) != T:
                raise Violation('query-value', f'center_of_mass has {len(c)} frames')
        elif what == 'structure':
            k = op.get('k', 0) % T
            if op.get('k', 0) % 4 == 1:
                k = -1  # the last frame, counted from the end
            elif op.get('k', 0) % 4 == 3:
                k -= T  # the same frame counted from the end
            s = gcall(lambda: t[k])
            if oracle.circ_diff(np.array(s.frac_coords), m.pos[k]).max() > 1e-9 or [x.symbol for x in s.species] != m.symbols:
                raise Violation('index-frame', f'trajectory[{k}] differs from frame {k} of the data')
            s2 = gcall(t.get_structure, k)
            if oracle.circ_diff(np.array(s2.frac_coords), m.pos[k]).max() > 1e-9:
                raise Violation('index-frame', f'get_structure({k}) differs from frame {k} of the data')
        elif what == 'iterate':
            # frame-by-frame iteration (for structure in trajectory) with another read-only query issued in the middle of the loop
            mid = op.get('k', 0) % max(T, 1)
            it = gcall(lambda: iter(t))
            for f in range(T):
                s = gcall(lambda: next(it))
                if oracle.circ_diff(np.array(s.frac_coords), m.pos[f]).max() > 1e-9 or [x.symbol for x in s.species] != m.symbols:
                    raise Violation('index-frame', f'frame {f} yielded while iterating over the trajectory differs from frame {f} of the data (a displacement query was issued after frame {mid})')
                if f == mid:
                    gcall(t.distances_from_base_position if op.get('k', 0) % 2 else (lambda: t.displacements))
                    self.flags['disp_switch'] = True
        elif what == 'lattice':
            if np.abs(np.array(gcall(t.get_lattice).matrix) - m.matrix).max() > 1e-9:
                raise Violation('lattice', 'get_lattice')
        elif what == 'transitions':
            sym = m.symbols[op.get('k', 0) % N]
            sites = cases.sites_structure(m.matrix, self.sites['frac'], self.sites['labels'], sym)
            # a trajectory in which nothing changes site cannot be turned into an event table (see C03); that is legal
            gcall(t.transitions_between_sites, sites, sym, site_radius=self.sites['radius'], allow=(ValueError,))
        elif what == 'rdf':
            a, b = m.symbols[op.get('k', 0) % N], m.symbols[(op.get('k', 0) // 7) % N]
            gcall(t.radial_distribution_between_species, specie_1=a, specie_2=b, max_dist=3.0, resolution=0.5)
        elif what == 'shape':
            # shape analysis of the trajectory seen as a supercell of a reference structure (space group P1)
            from gemdat.shape import ShapeAnalyzer
            from pymatgen.core import Lattice, PeriodicSite
            from pymatgen.symmetry.groups import SpaceGroup

            sc = [(2, 1, 1), (1, 2, 2), (1, 1, 1), None][op.get('k', 0) % 4]
            scale = np.array(sc or (1, 1, 1), float)
            lat = Lattice(m.matrix / scale[:, None])
            an = ShapeAnalyzer(sites=[PeriodicSite('Li', [0.1, 0.2, 0.3], lat, label='A')], lattice=lat, spacegroup=SpaceGroup('P1'))
            gcall(an.analyze_trajectory, t, supercell=sc, radius=0.8)
        elif what == 'free_energy':
            res = float(np.linalg.norm(m.matrix, axis=1).min()) / 2.5
            v = gcall(t.to_volume, resolution=res)
            fe = gcall(v.get_free_energy, 300.0)
            if not np.all(np.isfinite(np.asarray(fe.data))):
                raise Violation('query-value', 'free energy not finite')
        elif what == 'all_metrics':
            mo = gcall(t.metrics)
            self.flags['disp_switch'] = True
            for name, kw in (('particle_density', {}), ('mol_per_liter', {}), ('tracer_diffusivity_center_of_mass', {'dimensions': 2}), ('attempt_frequency', {}),
                             ('vibration_amplitude', {}), ('amplitudes', {}), ('tracer_conductivity', {'z_ion': 1, 'dimensions': 3})):
                gcall(getattr(mo, name), allow=(ValueError, ZeroDivisionError, FloatingPointError, IndexError), **kw)
        elif what == 'site_analysis':
            sym = m.symbols[op.get('k', 0) % N]
            sites = cases.sites_structure(m.matrix, self.sites['frac'], self.sites['labels'], sym)
            tr = gcall(t.transitions_between_sites, sites, sym, site_radius=self.sites['radius'], allow=(ValueError,))
            if not hasattr(tr, 'exc'):
                gcall(tr.occupancy, allow=(ValueError,))  # (two atoms on one site in one frame: pymatgen refuses an occupancy above 1)
                gcall(tr.states_next)
                gcall(tr.radial_distribution, floating_specie=sym, max_dist=3.0, resolution=0.5, allow=(ValueError,))
                jm = gcall(tr.jumps, allow=(ValueError,))
                if not hasattr(jm, 'exc'):
                    gcall(jm.jump_diffusivity, 3)
                    gcall(jm.collective, allow=(ValueError, ZeroDivisionError, OverflowError))
        else:
            raise AssertionError(what)

    def op_filter(self, op, i, t, m):
        kinds = sorted(set(m.symbols))
        mask = op['mask'] % (2 ** len(kinds) - 1) + 1
        chosen = [k for b, k in enumerate(kinds) if mask >> b & 1]
        coll = op.get('coll', 'list')
        arg = chosen[0] if (len(chosen) == 1 and op.get('as_str', True)) else {'list': list, 'tuple': tuple, 'set': set, 'frozenset': frozenset, 'dict_keys': lambda c: dict.fromkeys(c).keys()}[coll](chosen)
        new = gcall(t.filter, arg)
        idx = [j for j, s in enumerate(m.symbols) if s in chosen]
        nm = Model(m.pos[:, idx], [m.symbols[j] for j in idx], m.matrix, m.dt, m.meta)
        agree(new, nm, f'filter({arg!r})')
        self.add(new, nm)

    def op_slice(self, op, i, t, m):
        T = len(m.pos)
        sl = slice(op['start'], op['stop'], op['step'])
        sel = list(range(*sl.indices(T)))
        if not sel:
            raise Skip()
        new = gcall(lambda: t[sl])
        nm = Model(m.pos[sel], m.symbols, m.matrix, m.dt, m.meta)
        agree(new, nm, f'trajectory[{op["start"]}:{op["stop"]}:{op["step"]}] of {T} frames')
        self.add(new, nm)

    def op_split(self, op, i, t, m):
        T = len(m.pos)
        n = 1 + op['n'] % max(1, min(6, T - 1))
        if T < 2:
            raise Skip()
        parts = gcall(t.split, n, equal_parts=op['equal'])
        if len(parts) != n:
            raise Violation('split-count', f'{len(parts)} parts for n_parts={n}')
        a_prev_end = 0
        for k, p in enumerate(parts):
            L = len(p)
            if L == 0:
                raise Violation('split-empty-part', f'part {k} of {n} of a {T}-frame trajectory is empty')
            pp = peek_positions(p)
            start = None
            for a in range(a_prev_end, T - L + 1):
                if oracle.circ_diff(pp, m.pos[a : a + L]).max() <= 1e-9:
                    start = a
                    break
            if start is None:
                raise Violation('split-part-is-frame-range', f'part {k}/{n} ({L} frames) is not a contiguous frame range of the source starting at or after frame {a_prev_end}')
            nm = Model(m.pos[start : start + L], m.symbols, m.matrix, m.dt, m.meta)
            agree(p, nm, f'split part {k}/{n}')
            a_prev_end = start + L
            if k == op['keep'] % n:
                self.add(p, nm)
        if op['equal'] and len({len(p) for p in parts}) != 1:
            raise Violation('split-equal-parts', f'{[len(p) for p in parts]}')

    def op_clone(self, op, i, t, m):
        """other ways to obtain a trajectory holding the same (or drift-corrected) data"""
        import copy
        import pickle

        how = op['how']
        T = len(m.pos)
        cum, tie = unwrap(m.pos)
        if how == 'deepcopy':
            new, nm = gcall(copy.deepcopy, t), Model(m.pos.copy(), m.symbols, m.matrix, m.dt, m.meta)
        elif how == 'pickle':
            new, nm = gcall(lambda: pickle.loads(pickle.dumps(t))), Model(m.pos.copy(), m.symbols, m.matrix, m.dt, m.meta)
        elif how == 'displacement-ctor':
            # the constructor's other input form: per-frame displacements (negative ones too) plus the first frame as base positions
            if tie or T < 1:
                raise Skip()
            steps = np.concatenate([cum[:1] * 0, np.diff(cum, axis=0)], axis=0)
            new = cases.trajectory(steps, m.symbols, m.matrix, m.dt, m.meta.get('temperature', 300.0), self.kind, coords_are_displacement=True, base_positions=m.pos[0] - np.floor(m.pos[0]))
            nm = Model(m.pos.copy(), m.symbols, m.matrix, m.dt, {'temperature': m.meta.get('temperature', 300.0)})
            # a displacement-type query before anything asks for positions
            d = np.array(gcall(new.distances_from_base_position))
            want = np.linalg.norm(cum @ m.matrix, axis=-1).T
            if d.shape != want.shape or np.abs(d - want).max() > 1e-9 * max(1.0, want.max()):
                raise Violation('query-value', 'distances_from_base_position of a trajectory constructed from displacements')
        else:  # drift-corrected: every atom's step minus the mean step of all atoms, same first frame
            if tie or T < 1:
                raise Skip()
            steps = np.diff(cum, axis=0)
            if steps.size and np.abs(steps - steps.mean(axis=1, keepdims=True)).max() > 0.5 - 1e-6:
                raise Skip()  # a corrected step of half a cell or more is no longer a minimum-image step: outside the domain (as in C13)
            new = gcall(t.apply_drift_correction)
            self.flags['disp_switch'] = True
            corr = np.concatenate([cum[:1] * 0, np.cumsum(steps - steps.mean(axis=1, keepdims=True), axis=0)], axis=0)
            d = np.array(gcall(new.distances_from_base_position))  # (the result is handed out in the displacement representation)
            want = np.linalg.norm(corr @ m.matrix, axis=-1).T
            if d.shape != want.shape or np.abs(d - want).max() > 1e-9 * max(1.0, want.max()):
                raise Violation('query-value', 'distances_from_base_position of a drift-corrected trajectory')
            nm = Model(m.pos[:1] + corr, m.symbols, m.matrix, m.dt, m.meta)
        agree(new, nm, f'clone by {how}')
        self.add(new, nm)

    def op_extend_mismatch(self, op, i, t, m):
        """extending with a trajectory sampled at another time step cannot give 'the corresponding frames' under one time step: the
        documented outcome is a ValueError that leaves both objects untouched"""
        other = cases.trajectory(m.pos, m.symbols, m.matrix, m.dt * op['factor'], m.meta.get('temperature', 300.0), self.kind)
        r = gcall(t.extend, other, allow=(ValueError,))
        if not isinstance(r, Raised):
            raise Violation('extend-time-step', f'extend() accepted a trajectory with time step {m.dt * op["factor"]!r} onto one with {m.dt!r}; the result has {len(t)} frames under a single time step {t.time_step!r}')

    def op_extend(self, op, i, t, m):
        j = op['j'] % len(self.pool)
        t2, m2 = self.pool[j]
        if m2.symbols != m.symbols or len(m.pos) + len(m2.pos) > 80:
            raise Skip()
        pos2 = m2.pos.copy()
        gcall(t.extend, t2)
        m.pos = np.concatenate([m.pos, pos2], axis=0)
        self.flags['extend'] += 1
        if self.flags['disp_switch']:
            self.flags['derive_after_switch'] = True

    def finish(self):
        for k, (t, m) in enumerate(self.pool):
            agree(t, m, f'final public read of trajectory #{k}', public=True)
            agree(t, m, f'final public read of trajectory #{k} (second access)', public=True)

    def info(self):
        f = self.flags
        labels = [k for k in ('disp_switch', 'derive_after_switch', 'read_after_derive') if f[k]]
        if f['extend']:
            labels.append('extend')
        return {'nontrivial': bool(f['disp_switch'] and f['derive_after_switch'] and f['read_after_derive']), 'labels': labels}

    # ------------------------------------------------------------------ Hypothesis rules
    @initialize(case=st.deferred(lambda: base_cases()))
    def r_init(self, case):
        self.step({'op': 'init', 'case': case})

    @rule(i=st.integers(0, 7), what=st.sampled_from(QUERIES), k=st.integers(0, 60))
    def r_read(self, i, what, k):
        self.step({'op': 'read', 'i': i, 'what': what, 'k': k})

    @rule(i=st.integers(0, 7), what=st.sampled_from(['displacements', 'cumulative', 'distances', 'msd', 'diffusivity', 'speed', 'drift', 'com', 'drift_correct']))
    def r_read_switching(self, i, what):
        self.step({'op': 'read', 'i': i, 'what': what, 'k': 0})

    @rule(i=st.integers(0, 7), what=st.sampled_from(['positions', 'structure', 'volume', 'transitions', 'rdf', 'diffusivity', 'msd', 'iterate']), k=st.integers(0, 60))
    def r_read_values(self, i, what, k):
        self.step({'op': 'read', 'i': i, 'what': what, 'k': k})

    @rule(i=st.integers(0, 7), mask=st.integers(0, 62), as_str=st.booleans(), coll=st.sampled_from(['list', 'tuple', 'set', 'frozenset', 'dict_keys']))
    def r_filter(self, i, mask, as_str, coll):
        self.step({'op': 'filter', 'i': i, 'mask': mask, 'as_str': as_str, 'coll': coll})

    @rule(i=st.integers(0, 7), start=st.one_of(st.none(), st.integers(-12, 12)), stop=st.one_of(st.none(), st.integers(-12, 14)),
          step=st.sampled_from([None, 1, 1, 2, 3, -1, -2]))
    def r_slice(self, i, start, stop, step):
        self.step({'op': 'slice', 'i': i, 'start': start, 'stop': stop, 'step': step})

    @rule(i=st.integers(0, 7), how=st.sampled_from(['deepcopy', 'pickle', 'displacement-ctor', 'displacement-ctor', 'drift-corrected', 'drift-corrected']))
    def r_clone(self, i, how):
        self.step({'op': 'clone', 'i': i, 'how': how})

    @rule(i=st.integers(0, 7), factor=st.sampled_from([2.0, 0.5, 1000.0]))
    def r_extend_mismatch(self, i, factor):
        self.step({'op': 'extend_mismatch', 'i': i, 'factor': factor})

    @rule(i=st.integers(0, 7), n=st.integers(0, 5), equal=st.booleans(), keep=st.integers(0, 5))
    def r_split(self, i, n, equal, keep):
        self.step({'op': 'split', 'i': i, 'n': n, 'equal': equal, 'keep': keep})

    @rule(i=st.integers(0, 7), j=st.integers(0, 7))
    def r_extend(self, i, j):
        self.step({'op': 'extend', 'i': i, 'j': j})


_orig_step = TrajMachine.step


def _step(self, op):
    try:
        _orig_step(self, op)
    except Skip:
        self.log.pop()  # an op outside its precondition is a no-op and is not part of the history


TrajMachine.step = _step


@st.composite
def base_cases(draw):
    c = draw(gen.path_cases(min_frames=2, max_frames=12, min_atoms=1, max_atoms=5, max_step=0.45, specials=False,
                            species_pool=['Li', 'Na', 'S', 'Si', 'O']))
    c['form'] = draw(st.sampled_from(['wrapped', 'unwrapped']))
    rep = draw(st.sampled_from([1, 1, 1, 4, 7]))
    if rep > 1:
        # a larger system: every atom repeated at a small offset, the copies interleaved species by species (17 - 35 atoms, repeated symbols)
        pth = np.array(c['path'])
        off = np.arange(rep).reshape(1, rep, 1, 1) * np.array([0.013, 0.007, 0.011]).reshape(1, 1, 1, 3)
        c['path'] = (pth[:, None, :, :] + off).reshape(pth.shape[0], -1, 3).tolist()
        c['symbols'] = list(c['symbols']) * rep
    M = np.array(c['lattice']['matrix'])
    sites = draw(gen.site_sets(M, n_min=2, n_max=4, min_sep=1.2))
    sites['radius'] = 0.5
    c['sites'] = sites
    return c


def run_log(case):
    return replay_log(TrajMachine, case['log'])


SUBS = [
    Sub(name='api-histories', kind='machine', run=run_log, machine=lambda tier: TrajMachine,
        rule='RuleBasedStateMachine over a pool of <=8 live trajectories: 20 kinds of read-only query (values compared with the model; incl. shape analysis of the trajectory as a supercell, free energy, all metrics, the site / jumps / collective pipeline), filter (str/list/tuple), slices with any start/stop/step incl. negative, split (equal or not), in-place extend (also self-extension); model agreement checked non-invasively after every step and through the public API at the end',
        n={'quick': 40, 'thorough': 700}, shards={'quick': 8, 'thorough': 16}, steps={'quick': 30, 'thorough': 50}),
]
