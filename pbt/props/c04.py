"""C04  Jumps are exactly the changes of visited site; stricter settings only remove."""
from __future__ import annotations

import numpy as np
from hypothesis import strategies as st

from .. import oracle
from ..runner import Raised, Skip, Sub, Violation, gcall
from . import c03

PROPERTY = 'C04'
LEVEL = 'exploration'
RULE = ('cases are (outer, inner) site histories run through the real event builder and jump classifier; '
        'non-trivial = the reference model (compressed sequence of visited sites) contains at least one jump')
ASSUMPTIONS = [
    'inner state is always "none" or equal to the outer state',
    'histories without any change are skipped (the event table cannot be built, see C03)',
    'default settings = inner fraction 1 (inner == outer) and minimal_residence = 0',
]
JCOLS = ['atom index', 'start site', 'destination site', 'start time', 'stop time']
RES_SHORT = [0, 1, 2, 3, 5]
RES_LONG = [0, 1, 2, 3, 5, 10, 50]


def build(states, inner):
    from gemdat.transitions import Transitions, _calculate_transition_events

    events = gcall(_calculate_transition_events, atom_sites=states, atom_inner_sites=inner)
    n_sites = int(max(states.max(), 0)) + 1
    return Transitions(trajectory=None, diff_trajectory=None, sites=c03.dummy_sites(n_sites), events=events, states=states, inner_states=inner)


def jump_rows(tr, residence, route='class'):
    """-> list of 5-tuples, or None when 'No jumps found' is raised (an empty table is an equally valid way to report no jumps).
    route: the Jumps class, the Transitions.jumps() convenience method, or that method without arguments (minimal residence 0)."""
    from gemdat.jumps import Jumps

    if route == 'method-bare' and residence == 0:
        j = gcall(tr.jumps, allow=(ValueError,))
    elif route.startswith('method'):
        j = gcall(tr.jumps, minimal_residence=residence, allow=(ValueError,))
    else:
        j = gcall(Jumps, tr, minimal_residence=residence, allow=(ValueError,))
    if isinstance(j, Raised):
        if 'No jumps found' not in str(j.exc):
            raise Violation('unexpected-exception', repr(j.exc))
        return None
    data = j.data
    for c in JCOLS:
        if c not in data.columns:
            raise Violation('columns', f'missing column {c!r} in {list(data.columns)}')
    rows = [tuple(int(x) for x in r) for r in data[JCOLS].to_numpy()]
    if j.n_jumps != len(rows):
        raise Violation('n_jumps', f'n_jumps={j.n_jumps} but {len(rows)} rows')
    return rows


def run(case):
    states = np.array(case['states'], dtype=int)
    inner = np.array(case['inner'], dtype=int)
    residences = case.get('residences', RES_SHORT)
    if not ((states[1:] != states[:-1]).any() or (inner[1:] != inner[:-1]).any()):
        raise Skip()
    model = oracle.jumps_model(states)
    default_keys = {r[:4] for r in model}
    inner_equal = bool(np.array_equal(states, inner))
    tr = build(states, inner)
    labels = []
    prev_keys = None
    # the analyses are requested in a case-dependent order and through a case-dependent route on ONE Transitions object; afterwards
    # they are examined by ascending residence
    h = int(np.abs(states).sum()) + int(np.abs(inner).sum()) + 3 * len(states)
    route = ['class', 'method', 'method-bare'][h % 3]
    asked = sorted(residences, reverse=bool((h // 3) % 2))
    all_rows = {res: jump_rows(tr, res, route) for res in asked}
    if (h // 6) % 2 and 0 in all_rows:
        all_rows[0] = jump_rows(tr, 0, route)  # the default analysis once more, after all the others
    labels.append('route-' + route)
    for res in sorted(residences):
        rows = all_rows[res]
        if inner_equal and res == 0:
            # default settings: exact equality with the model, each jump once
            if rows is None:
                if model:
                    raise Violation('default-missing-jump', f'"No jumps found" but the visited-site sequence has jumps {sorted(model)[:4]}')
            else:
                if len(set(rows)) != len(rows):
                    raise Violation('default-duplicate-jump', f'{sorted(rows)}')
                missing, extra = model - set(rows), set(rows) - model
                if extra:
                    r = sorted(extra)[0]
                    kind = 'default-spurious-jump'
                    if r[:3] in {m[:3] for m in model}:
                        kind = 'default-wrong-times'
                    raise Violation(kind, f'reported (atom,origin,dest,start,stop)={r}; model has {sorted(model)[:6]}')
                if missing:
                    raise Violation('default-missing-jump', f'model jump {sorted(missing)[0]} not reported; got {sorted(rows)[:6]}')
        keys = set()
        for r in rows or []:
            a, o, d, s, e = r
            k = (a, o, d, s)
            if k in keys:
                raise Violation('duplicate-jump', f'residence={res}: jump {k} reported twice')
            keys.add(k)
            if k not in default_keys:
                raise Violation('not-a-default-jump', f'residence={res} inner_equal={inner_equal}: reported {r} is not among the default jumps {sorted(default_keys)[:6]}')
            if not (0 <= s < e < len(states)) or states[s, a] != o or states[e, a] != d:
                raise Violation('inconsistent-with-states', f'residence={res}: jump {r} but states[start]={states[s, a] if 0 <= s < len(states) else None}, states[stop]={states[e, a] if 0 <= e < len(states) else None}')
        if prev_keys is not None and not keys <= prev_keys[1]:
            raise Violation('residence-not-monotone', f'raising minimal_residence {prev_keys[0]} -> {res} added jumps {sorted(keys - prev_keys[1])[:3]}')
        if prev_keys is not None and len(keys) < len(prev_keys[1]):
            labels.append('candidate-rejected-by-residence')
        prev_keys = (res, keys)
    # labels
    T, N = states.shape
    for a in range(N):
        seq = [int(x) for x in states[:, a]]
        comp = [s for i, s in enumerate(seq) if i == 0 or s != seq[i - 1]]
        for i in range(len(comp) - 2):
            if comp[i] != -1 and comp[i + 1] == -1 and comp[i + 2] == comp[i]:
                labels.append('leave-and-return-same-site')
                break
        if any(x != -1 and y != -1 for x, y in zip(comp, comp[1:])):
            labels.append('direct-site-to-site')
    if not inner_equal:
        labels.append('inner-strict-subset')
    if N > 1:
        labels.append('multi-atom')
    return {'nontrivial': bool(model), 'labels': sorted(set(labels))}


def run_long_jumps(case):
    """very long trajectories through the whole pipeline: default-settings jumps vs the model (time columns beyond 2^15 frames)"""
    info = c03.run_long(case)
    tr, states = info['tr'], info['states']
    model = oracle.jumps_model(states)
    rows = jump_rows(tr, 0)
    inner_equal = bool(np.array_equal(np.asarray(tr.states), np.asarray(tr.inner_states)))
    default_keys = {r[:4] for r in model}
    for r in rows or []:
        a, o, d, s_, e = r
        if r[:4] not in default_keys:
            raise Violation('not-a-default-jump', f'{len(states)} frames: reported {r} is not among the default jumps {sorted(default_keys)[:5]}')
        if not (0 <= s_ < e < len(states)) or states[s_, a] != o or states[e, a] != d:
            raise Violation('inconsistent-with-states', f'{len(states)} frames: jump {r}')
    if inner_equal and set(rows or []) != model:
        raise Violation('default-missing-jump', f'{len(states)} frames')
    return {'nontrivial': bool(model), 'labels': info['labels']}


# ----------------------------------------------------------------------------- enumerations
class EnumOuter:
    """All one-atom outer histories over <=3 sites (4 symbols), inner == outer (default settings)."""

    def __init__(self, L):
        self.L = L

    def size(self, tier):
        return sum(4**ln for ln in range(2, self.L[tier] + 1))

    def case_at(self, tier, idx):
        for ln in range(2, self.L[tier] + 1):
            if idx < 4**ln:
                break
            idx -= 4**ln
        col = [d - 1 for d in c03.decode(idx, 4, ln)]
        return {'states': [[x] for x in col], 'inner': [[x] for x in col], 'residences': RES_SHORT}


EO = EnumOuter({'quick': 7, 'thorough': 9})
EI = c03.Enum(1, 3, {'quick': 5, 'thorough': 6})
EI2 = c03.Enum(2, 2, {'quick': 3, 'thorough': 4})


def _with_res(enum):
    def case_at(tier, idx):
        c = enum.case_at(tier, idx)
        c['residences'] = RES_SHORT
        return c

    return case_at


@st.composite
def long_histories(draw, tier='quick'):
    c = draw(c03.histories(max_atoms=4, max_frames=120 if tier == 'quick' else 300, max_sites=6))
    if draw(st.booleans()):
        c['inner'] = c['states']
    c['residences'] = RES_LONG
    return c


def run_many(case):
    """many atoms (atom-count dependent code paths): the C03 family of deterministic histories, inner == outer in every second case"""
    states, inner = c03.many_history(case)
    if case['k'] % 2 == 0:
        inner = states.copy()
    info = run({'states': states.tolist(), 'inner': inner.tolist(), 'residences': [0, 1, 2]})
    N = case['atoms']
    info['labels'] = list(info.get('labels', [])) + [f'atoms>{256 * (N // 256)}' if N % 256 else 'atoms-multiple-of-256']
    info['count'] = N
    return info


SUBS = [
    Sub(name='enum-default', kind='enum', run=run, size=EO.size, case_at=EO.case_at, exhaustive=True,
        rule='complete enumeration of one-atom outer histories over <=3 sites, length 2..7 (quick) / 2..9 (thorough), inner == outer; exact comparison with the visited-site model at residence 0 and subset/monotonicity for residences 0,1,2,3,5',
        shards={'quick': 16, 'thorough': 16}),
    Sub(name='enum-inner', kind='enum', run=run, size=EI.size, case_at=_with_res(EI), exhaustive=True,
        rule='complete enumeration of one-atom (outer, inner) histories over <=3 sites (7 symbols), length 2..5 (quick) / 2..6 (thorough) x residences 0,1,2,3,5',
        shards={'quick': 16, 'thorough': 16}),
    Sub(name='enum-2atoms', kind='enum', run=run, size=EI2.size, case_at=_with_res(EI2), exhaustive=True,
        rule='complete enumeration of two-atom (outer, inner) histories over 2 sites, length 2..3 (quick) / 2..4 (thorough) x residences 0,1,2,3,5',
        shards={'quick': 16, 'thorough': 16}),
    Sub(name='enum-many-atoms', kind='enum', run=run_many, size=c03.many_size, case_at=c03.many_case, exhaustive=True,
        rule='small family, complete: deterministic histories of 255 - 700 atoms (around multiples of 256) x 3-7 frames over 3 sites (inner == outer in every second case), residences 0, 1, 2: default jumps vs the visited-site model, subset / consistency / monotonicity (each atom is one evaluation)',
        shards={'quick': 8, 'thorough': 16}),
    Sub(name='random-long', kind='hyp', run=run, strategy=lambda tier: long_histories(tier=tier),
        rule='1-4 atoms x 2-120 (300) frames x <=6 sites, inner == outer in about half the cases, residences 0,1,2,3,5,10,50',
        n={'quick': 150, 'thorough': 4000}, shards={'quick': 8, 'thorough': 16}),
    Sub(name='fuzz-jumps', kind='fuzz', run=run, target='jumps',
        rule='thorough tier only: atheris (libFuzzer) coverage-guided campaign on the Python-level classifier with the property oracle inside the target; bytes are decoded into a structured case; empty and seeded corpus shards; non-trivial counted but not de-duplicated',
        n={'quick': 0, 'thorough': 60000}, shards={'quick': 1, 'thorough': 16}),
    Sub(name='long-pipeline', kind='hyp', shrink=False, run=run_long_jumps, strategy=c03.long_cases,
        rule='trajectories of 33 000 - 70 000 (140 000) frames through transitions_between_sites and Jumps: every reported jump is a default jump of the planned history and consistent with the states',
        n={'quick': 2, 'thorough': 12}, shards={'quick': 6, 'thorough': 16}),
]
