import sys

from pbt.runner import main

sys.exit(main())
