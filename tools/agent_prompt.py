#!/venv/bin/python
"""Print the prompt handed to a fresh sub-agent for seeding a property-breaking change.
The agent receives only the property's text and its own scratch worktree (nothing from /verif)."""
import json, sys
pid = sys.argv[1]
n = sys.argv[2] if len(sys.argv) > 2 else '2'
wt = sys.argv[3] if len(sys.argv) > 3 else f'/tmp/wt/{pid}'
p = next(json.loads(l) for l in open('/verif/properties.jsonl') if json.loads(l)['id'] == pid)
print(f"""You are helping to evaluate a verification effort for the open-source Python library GEMDAT (analysis of molecular-dynamics trajectories for ion diffusion, built on pymatgen). You have your own scratch git worktree of the repository at {wt} (source under {wt}/src/gemdat, tests under {wt}/tests). Work ONLY inside {wt} (and, for temporary files, {wt}/.scratch). Do not read or touch /repo, /verif or any other directory; do not commit anything.

This semantic property of GEMDAT is supposed to hold:

  Title: {p['title']}
  Statement: {p['statement']}
  Quantified over: {p['quantifier']['text']}

Your task: produce {n} DIFFERENT, realistic source changes (bugs a maintainer could plausibly introduce during a refactor, optimisation or "clean-up") to the library code under {wt}/src/gemdat, each of which BREAKS this property, while the code still imports and the existing offline test suite still passes exactly as before. Prefer subtle changes that need something specific to manifest - an unusual input (e.g. a non-cubic or rotated cell, a coordinate on a cell face, a particular length or boundary frame), a multi-step sequence of API calls, a specific argument combination, or two cooperating code sites that each look fine alone - NOT changes that any ordinary use would expose at once, and not changes that simply raise exceptions everywhere. Each change should be small (a few lines) and touch only library source files (not tests).

How to run things (the package is pure Python; no build step):
  - run python against your tree:  cd {wt} && PYTHONPATH={wt}/src /venv/bin/python your_script.py
  - run the existing test suite:   cd {wt} && PYTHONPATH={wt}/src /venv/bin/python -m pytest -q -p no:cacheprovider --timeout=900 --continue-on-collection-errors 2>&1 | tail -n 50
    On the unmodified tree exactly 66 tests pass and 40 fail (the failing ones need data files/network that are absent; ignore them). With your change applied the SAME 66 tests must still pass (compare the list of passing test ids, e.g. with `-rA` or `--junitxml`).
  - There is no network access. Do not install anything.

For each change i = 1..{n} deliver, in {wt}/.scratch/change_i/ :
  1. patch.diff  - produced with `git -C {wt} diff` (relative to the unmodified HEAD) containing ONLY that change (reset the tree with `git -C {wt} checkout -- .` between changes so that the diffs are independent).
  2. demo.py     - a small self-contained script (no pytest needed, no data files; build trajectories/structures in memory with numpy/pymatgen) that exits 0 and prints PASS on the unmodified tree and exits 1 and prints FAIL when the patch is applied. It must demonstrate the violation of the property as stated (not merely a difference from the old output), e.g. by comparing with a brute-force computation.
  3. notes.md    - 5-10 lines: what the change is, why it breaks the property, what is needed for it to manifest, and confirmation (with the numbers you saw) that the 66 baseline tests still pass with the patch and that demo.py passes without / fails with the patch.

Verify all of this yourself by actually running it. Leave the worktree in the UNMODIFIED state (git -C {wt} checkout -- .) when you finish; the .scratch directory stays. In your final answer list the changes with one line each.""")
