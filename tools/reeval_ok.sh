#!/bin/bash
# tools/reeval_ok.sh <PROPERTY-ID>... : re-run the stored property-preserving refactorings (seeded_ok/<ID>-*) against the current
# quick check of their property; every line must end in exit=0 (a non-zero exit is over-reach of a check, to be corrected)
for pid in "$@"; do for d in /verif/seeded_ok/$pid-*; do [ -f $d/patch.diff ] || continue; n=$(basename $d)
  grep -q '"valid": true' $d/meta.json || { echo "ok-seed=$n skipped (recorded as not property-preserving)"; continue; }
  wt=/tmp/sv/ok_$n; git -C /repo worktree remove --force "$wt" 2>/dev/null; rm -rf "$wt"; mkdir -p /tmp/sv
  git -C /repo worktree add --detach "$wt" HEAD >/dev/null 2>&1 || { echo "worktree failed"; continue; }
  if git -C "$wt" apply $d/patch.diff 2>/dev/null; then
    out=$(VERIF_REPO="$wt" /verif/check "$pid" --tier quick --no-evidence 2>&1); rc=$?
    echo "ok-seed=$n property=$pid exit=$rc $(echo "$out" | grep -m1 -o 'violated clause.*' | cut -c1-260)"
  else echo "ok-seed=$n patch does not apply"; fi
  git -C /repo worktree remove --force "$wt" 2>/dev/null; rm -rf "$wt"
done; done
