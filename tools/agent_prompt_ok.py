#!/venv/bin/python
"""Prompt for a sub-agent that writes property-PRESERVING refactorings (the checks must stay quiet on them)."""
import json, sys
pid = sys.argv[1]; n = sys.argv[2] if len(sys.argv) > 2 else '2'; wt = sys.argv[3] if len(sys.argv) > 3 else f'/tmp/wt/{pid}'
p = next(json.loads(l) for l in open('/verif/properties.jsonl') if json.loads(l)['id'] == pid)
print(f"""You are helping to evaluate a verification effort for the open-source Python library GEMDAT (analysis of molecular-dynamics trajectories for ion diffusion, built on pymatgen). You have your own scratch git worktree of the repository at {wt} (source under {wt}/src/gemdat, tests under {wt}/tests). Work ONLY inside {wt} (and, for temporary files, {wt}/.scratch). Do not read or touch /repo, /verif or any other directory; do not commit anything; never use 'git stash' (it is shared with sibling worktrees) - use 'git diff > file.diff; git checkout -- .' and 'git apply file.diff' instead.

This semantic property of GEMDAT holds on the current code and must CONTINUE to hold:

  Title: {p['title']}
  Statement: {p['statement']}
  Quantified over: {p['quantifier']['text']}

Your task: produce {n} DIFFERENT source changes to the library code under {wt}/src/gemdat that a maintainer could legitimately make - refactorings, optimisations, clean-ups or robustness improvements - which change HOW the code anchored by this property works but keep the property TRUE for every input in its domain, keep all public signatures, and keep the existing offline test suite passing exactly as before. We want to find out whether an external checker of this property wrongly raises an alarm on correct code, so prefer changes that alter incidental, unspecified behaviour while staying within the statement, for example: a different but equally valid order of floating-point operations (results may differ in the last bits), another algorithm giving the same answers (vectorised instead of looped, another library routine, sorting differently), different dtypes or container types of internal or returned values where the statement does not fix them, a different choice among outputs the statement allows (ties between equally cheap paths, the order of rows in a table, which of several equivalent representatives is returned), different handling of inputs OUTSIDE the stated domain, different warnings/messages, extra caching that is still correct. Each change should touch the functions the property is about (not just comments or formatting) and be 5-60 lines.

How to run things (the package is pure Python; no build step):
  - run python against your tree:  cd {wt} && PYTHONPATH={wt}/src /venv/bin/python your_script.py
  - run the existing test suite:   cd {wt} && PYTHONPATH={wt}/src /venv/bin/python -m pytest -q -p no:cacheprovider --timeout=900 --continue-on-collection-errors 2>&1 | tail -n 50
    On the unmodified tree exactly 66 tests pass and 40 fail (the failing ones need data files/network that are absent; ignore them). With your change applied the SAME 66 tests must still pass.
  - There is no network access. Do not install anything.

For each change i = 1..{n} deliver, in {wt}/.scratch/change_i/ :
  1. patch.diff  - produced with `git -C {wt} diff` (relative to the unmodified HEAD) containing ONLY that change (reset the tree between changes so the diffs are independent).
  2. demo.py     - a self-contained script (no data files; build inputs in memory with numpy/pymatgen) that checks the property as stated against a brute-force computation on a few dozen varied inputs (different cell shapes, sizes, argument forms) and exits 0 printing PASS both WITHOUT and WITH the patch. Also print one line showing something observable that the patch DID change (e.g. a last-bit difference, a dtype, a row order), to prove the patch is not a no-op.
  3. notes.md    - 5-10 lines: what the change is, why the property still holds for every input in its domain, what incidental behaviour changed, and confirmation (with the numbers you saw) that the 66 baseline tests still pass and demo.py passes in both states.

Verify all of this yourself by actually running it. Leave the worktree in the UNMODIFIED state when you finish; the .scratch directory stays. In your final answer list the changes with one line each.""")
