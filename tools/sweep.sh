#!/bin/bash
# tools/sweep.sh "<seeds>" [tier] : run every registered check at several seeds on the unchanged tree; anything but exit 0 is a false alarm or harness bug
cd "$(dirname "$0")/.."
tier=${2:-quick}
for seed in $1; do
  for id in C01 C02 C03 C04 C05 C06 C07 C08 C09 C10 C11 C12 C13 C14 C15 C16 C17 C18 C19 C20; do
    s=$(date +%s)
    out=$(VERIF_SEED=$seed ./check $id --tier $tier --no-evidence 2>&1); rc=$?
    e=$(date +%s)
    echo "seed=$seed $id exit=$rc $((e-s))s $(echo "$out" | grep -E 'violated|HARNESS' | head -2 | cut -c1-300)"
  done
done
