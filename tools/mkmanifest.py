#!/venv/bin/python
"""Write MANIFEST.json from the table below (kept here so the manifest stays valid and uniform)."""
import json, os
ROOT = os.path.dirname(os.path.dirname(os.path.abspath(__file__)))
CHECKS = json.load(open(os.path.join(ROOT, 'tools', 'manifest_checks.json')))
props = [json.loads(l) for l in open(os.path.join(ROOT, 'properties.jsonl'))]
checks = []
for p in props:
    c = CHECKS.get(p['id'])
    if not c:
        continue
    checks.append({
        'property_id': p['id'],
        'quick_cmd': f"./check {p['id']} --tier quick",
        'thorough_cmd': f"./check {p['id']} --tier thorough",
        'evidence_file': f"evidence/{p['id']}.json",
        'replay_cmd_template': f"./check {p['id']} --replay {{path}}",
        'engine': 'pbt',
        'level_claimed': {'category': c.get('category', 'exploration'), 'text': c['text'], 'design_ref': f"DESIGN.md section 4, {p['id']}"},
        'level_note': c['note'],
        'technique': c['technique'],
    })
na = [{'property_id': p['id'], 'reason': CHECKS.get('_not_applicable', {}).get(p['id'], 'check not built yet in this revision (work in progress); see DESIGN.md')} for p in props if p['id'] not in CHECKS]
m = {
    'version': 1,
    'setup_cmd': './setup.sh',
    'hooks': {
        'guard': 'GEMDAT_VERIF',
        'enable': 'no source hooks are needed: every property is observable through the public API and the private helpers its anchors name; checks import gemdat from /repo/src in a fresh process',
        'baseline_off_cmd': 'cd /repo && /venv/bin/python -m pytest -ra -q -p no:cacheprovider --timeout=900 --continue-on-collection-errors',
        'source_commits': [],
        'add_only': True,
    },
    'engines': [{'name': 'pbt', 'path': 'pbt/', 'serves_properties': [c['property_id'] for c in checks],
                 'kind_free_text': 'Hypothesis 6.168 property-based testing (given / RuleBasedStateMachine), bounded complete enumeration, atheris fuzz targets; independent numpy oracles in pbt/oracle.py; JSON replay files'}],
    'checks': checks,
    'not_applicable': na,
    'notes': 'Entry point ./check <ID> [--tier quick|thorough] [--replay f]. VERIF_SEED selects the Hypothesis seed (derandomize is off). known_findings.json lists open/fixed findings; regressions/<ID>/*.json are replayed first on every run.',
}
# (an empty not_applicable list is kept on purpose: every listed property is claimed)
json.dump(m, open(os.path.join(ROOT, 'MANIFEST.json'), 'w'), indent=1)
print('checks:', [c['property_id'] for c in checks], 'n/a:', [x['property_id'] for x in na])
