#!/venv/bin/python
"""Print a markdown table of every registered sub-check (used for DESIGN.md section 8.6)."""
import importlib, os, sys
sys.path.insert(0, '/repo/src'); sys.path.insert(0, os.path.dirname(os.path.dirname(os.path.abspath(__file__))))
print('| property | sub-check | kind | quick budget | thorough budget | what is generated / enumerated and compared |')
print('|---|---|---|---|---|---|')
for i in range(1, 21):
    m = importlib.import_module(f'pbt.props.c{i:02d}')
    for s in m.SUBS:
        if s.kind == 'enum':
            q, t = f'{s.size("quick")} cases (all)', f'{s.size("thorough")} cases (all)'
        elif s.kind == 'machine':
            q, t = f'{s.n["quick"]}x{s.shards["quick"]} histories x {s.steps["quick"]} steps', f'{s.n["thorough"]}x{s.shards["thorough"]} x {s.steps["thorough"]}'
        elif s.kind == 'fuzz':
            q, t = '-', f'{s.n["thorough"]}x{s.shards["thorough"]} executions'
        else:
            q, t = f'{s.n["quick"]}x{s.shards["quick"]}', f'{s.n["thorough"]}x{s.shards["thorough"]}'
        print(f'| C{i:02d} | {s.name} | {s.kind} | {q} | {t} | {s.rule} |')
