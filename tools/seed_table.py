#!/venv/bin/python
"""Collect seeded/*/meta.json into seeded/RESULTS.md (which checks catch which changes)."""
import glob, json, os
ROOT = os.path.dirname(os.path.dirname(os.path.abspath(__file__)))
rows = []
for f in sorted(glob.glob(os.path.join(ROOT, 'seeded', '*', 'meta.json'))):
    m = json.load(open(f))
    notes = (m.get('needs_to_manifest') or '').strip().splitlines()
    first = next((l.strip('# ').strip() for l in notes if l.strip()), '')
    rows.append((m['name'], m['property'], 'yes' if m.get('valid_seed') else 'NO', 'caught' if m['check_result']['detected'] else 'MISSED',
                 m['check_result'].get('seconds', ''), (m['check_result'].get('first_violation') or '')[:110].replace('|', '/'), first[:120].replace('|', '/')))
out = ['# Seeded property-breaking changes (written by independent sub-agents) and what the quick checks do with them', '',
       'Each change was confirmed in a fresh scratch worktree: demo passes without / fails with the patch, the 66 baseline tests still pass with it.',
       'Then `VERIF_REPO=<patched worktree> ./check <ID> --tier quick` was run (tools/seed_eval.sh).', '',
       '| seed | property | valid | quick check | s | first violated clause | change |', '|---|---|---|---|---|---|---|']
for r in rows:
    out.append('| ' + ' | '.join(str(x) for x in r) + ' |')
n = len(rows); c = sum(1 for r in rows if r[3] == 'caught' and r[2] == 'yes'); v = sum(1 for r in rows if r[2] == 'yes')
out += ['', f'{c} of {v} valid seeds are caught by the quick tier.']
open(os.path.join(ROOT, 'seeded', 'RESULTS.md'), 'w').write('\n'.join(out) + '\n')
print('\n'.join(out[-3:]))
