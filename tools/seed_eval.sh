#!/bin/bash
# tools/seed_eval.sh <dir with patch.diff + demo.py [+notes.md]> <PROPERTY-ID> <seed-name> [extra check args]
# Confirms a seeded change independently (fresh scratch worktree of /repo HEAD under /tmp, removed afterwards):
#   demo passes without the patch, patch applies, 66 baseline tests still pass, demo fails with the patch,
#   and then runs our quick check for the property against the patched scratch tree (VERIF_REPO).
# Nothing is ever applied to /repo itself. Results are appended to seeded/<name>/meta.json by tools/seed_record.py.
src="$1"; pid="$2"; name="$3"; shift 3
V=/verif; wt=/tmp/sv/$name
mkdir -p /tmp/sv; git -C /repo worktree remove --force "$wt" 2>/dev/null; rm -rf "$wt"
git -C /repo worktree add --detach "$wt" HEAD >/dev/null 2>&1 || { echo "worktree failed"; exit 2; }
trap 'git -C /repo worktree remove --force "$wt" 2>/dev/null; rm -rf "$wt"' EXIT
run_demo() { (cd "$wt" && PYTHONPATH="$wt/src" timeout 600 /venv/bin/python "$src/demo.py" >/tmp/sv/$name.demo.out 2>&1; echo $?); }
sed "s#/tmp/wt/[A-Za-z0-9_]*#$wt#g" "$src/demo.py" > /tmp/sv/$name.demo.py  # demos may hard-code their worktree path
run_demo2() { (cd "$wt" && PYTHONPATH="$wt/src" timeout 600 /venv/bin/python /tmp/sv/$name.demo.py >/tmp/sv/$name.demo.out 2>&1; echo $?); }
d0=$(run_demo2)
if ! git -C "$wt" apply "$src/patch.diff" 2>/tmp/sv/$name.apply.err; then echo "RESULT name=$name patch_applies=no"; cat /tmp/sv/$name.apply.err; exit 3; fi
$V/tools/suite.py "$wt" >/tmp/sv/$name.suite.out 2>&1; s=$?
d1=$(run_demo2)
t0=$(date +%s)
VERIF_REPO="$wt" $V/check "$pid" --tier quick --no-evidence "$@" >/tmp/sv/$name.check.out 2>&1; c=$?
t1=$(date +%s)
viol=$(grep -m1 -o 'violated clause.*' /tmp/sv/$name.check.out | cut -c1-240)
echo "RESULT name=$name property=$pid demo_unpatched=$d0 suite_with_patch=$s demo_patched=$d1 check_exit=$c check_s=$((t1-t0)) :: $viol"
mkdir -p $V/seeded/$name
cp "$src/patch.diff" $V/seeded/$name/patch.diff; cp "$src/demo.py" $V/seeded/$name/demo.py; [ -f "$src/notes.md" ] && cp "$src/notes.md" $V/seeded/$name/notes.md
/venv/bin/python - "$name" "$pid" "$d0" "$s" "$d1" "$c" "$viol" "$((t1-t0))" <<'PY'
import json, sys, os
name, pid, d0, s, d1, c, viol, secs = sys.argv[1:9]
p = f'/verif/seeded/{name}/meta.json'
meta = json.load(open(p)) if os.path.exists(p) else {}
notes = open(f'/verif/seeded/{name}/notes.md').read() if os.path.exists(f'/verif/seeded/{name}/notes.md') else ''
meta.update({
 'property': pid, 'name': name,
 'needs_to_manifest': meta.get('needs_to_manifest') or notes[:1500],
 'confirmed': {'demo_exit_unpatched': int(d0), 'baseline_66_pass_with_patch': s == '0', 'demo_exit_patched': int(d1)},
 'valid_seed': d0 == '0' and s == '0' and d1 != '0',
 'what_was_run': ['tools/seed_eval.sh: fresh worktree of /repo HEAD; demo.py (expect exit 0); git apply patch.diff; tools/suite.py (66 stable tests); demo.py (expect exit 1); VERIF_REPO=<worktree> ./check %s --tier quick' % pid],
 'check_result': {'exit': int(c), 'detected': c == '1', 'first_violation': viol, 'seconds': int(secs)},
})
json.dump(meta, open(p, 'w'), indent=1)
PY
