#!/bin/bash
declare -A NB=( [C01]="C06 C15" [C02]="C07 C05 C11" [C03]="C04 C19 C05" [C04]="C03 C19" [C05]="C19 C20" [C06]="C14 C01" [C07]="C02 C03" [C08]="C07" [C09]="C10" [C10]="C09 C07" [C11]="C07" [C12]="C07 C20" [C13]="C15 C01" [C14]="C06 C20" [C15]="C01 C19" [C16]="" [C17]="" [C18]="" [C19]="C05 C04" [C20]="C05 C12" )
for id in "$@"; do for i in 1 2; do [ -d /tmp/wt/$id/.scratch/change_$i ] && /verif/tools/ok_eval.sh /tmp/wt/$id/.scratch/change_$i $id $id-ok2-$i ${NB[$id]} 2>&1 | tail -3 | cut -c1-330; done; done
