#!/venv/bin/python
"""Round >= 5 prompt for a fresh sub-agent seeding property-breaking changes.
The agent receives the property's text, its own scratch worktree and one-line titles of the changes earlier
agents produced for this property (so that it does not repeat them) - nothing about the checks in /verif."""
import glob, json, os, sys
pid = sys.argv[1]
n = sys.argv[2] if len(sys.argv) > 2 else '2'
wt = sys.argv[3] if len(sys.argv) > 3 else f'/tmp/wt/{pid}'
focus = sys.argv[4] if len(sys.argv) > 4 else 'A'
p = next(json.loads(l) for l in open('/verif/properties.jsonl') if json.loads(l)['id'] == pid)
prev = []
for f in sorted(glob.glob(f'/verif/seeded/{pid}-*/meta.json')) + sorted(glob.glob(f'/verif/seeded/{pid}_*/meta.json')):
    m = json.load(open(f))
    notes = (m.get('needs_to_manifest') or '').strip().splitlines()
    first = next((l.strip('# ').strip() for l in notes if l.strip()), '')
    if first:
        prev.append('  - ' + first[:200])
FOCUS = {
 'A': """Aim this time at faults of the following kinds (pick whichever fit this property best):
  * COMBINATIONS: the fault shows only when two independently harmless features meet (two optional arguments that are rarely used together; a particular cell shape together with a particular argument form; one species/label/site configuration together with a particular frame position; a derived object (slice, filtered, split part, extended) used where normally the original is used).
  * DATA-DEPENDENT BRANCHES AND DEGENERACIES: equal values / exact ties, duplicated entries, a single atom / single site / single frame pair / a single event, empty intermediate selections, all-identical labels, quantities that are exactly zero, values that are exactly representable vs not, inputs that are already sorted vs unsorted, indices that are non-contiguous or do not start at zero.
  * SHARED HELPERS: a change in a helper module (utils.py, caching.py, a base-class method, a property used by many callers) that looks like a harmless generalisation there but breaks this property through one particular caller.
  * NUMERICS: a "harmless" change of dtype, of the order of operations, of a tolerance, of a rounding mode (round / floor / trunc / rint / astype(int)), of a comparison (< vs <=) or of a unit constant, which is invisible for ordinary magnitudes but wrong for particular magnitudes (very small or large cells, time steps, temperatures, counts, many frames) or particular signs (negative coordinates, negative indices, negative charges).""",
 'B': """Aim this time at faults of the following kinds (pick whichever fit this property best):
  * HISTORY / STATE: the result is wrong only after a particular sequence of calls on the same or on related objects (call X, then Y, then X again with other arguments; object A derived from B and B modified/queried afterwards; an attribute that is computed lazily and remembered; a default mutable argument; a class attribute used as instance state; module-level state; results that alias internal arrays which the caller or a later call modifies).
  * LESS-TRAVELLED API SURFACE: the same quantity is reachable through several public routes (method vs module-level function, property vs method, convenience wrappers, alternative constructors / classmethods, optional keyword arguments with non-default values, alternative accepted argument types such as str vs list vs numpy array vs pymatgen objects). Break one of the rarer routes and leave the common one intact.
  * POSITION-DEPENDENT OFF-BY-ONES: the first or last frame / atom / site / voxel / bin / row / part is treated differently from the interior ones, or the fault shows only when a count is a multiple / not a multiple of another (frames vs parts, grid size vs chunk size, number of rows vs block length).
  * PARTIAL FIXES AND GUARDS: a guard or fast path (`if all(...)`, `if len(x) == 1`, `if np.allclose(...)`, `try/except` fallback, early `return`) that is right for almost every input but takes the wrong branch for a narrow class of valid inputs.""",
 'C': """Aim this time at faults of the following kinds (pick whichever fit this property best):
  * ALGORITHM REPLACEMENTS: a loop replaced by a vectorised expression or a library call (np.unique / searchsorted / bincount / einsum / argsort, scipy cKDTree / cdist, pandas groupby / merge / drop_duplicates / sort_values, a networkx routine) that is equivalent except for ties, duplicates, NaN, empty groups, an ordering assumption, dtype promotion, or broadcasting of a length-1 axis.
  * CONVENTIONS AND UNITS: fractional vs Cartesian, row vs column vectors (matrix vs its transpose - invisible for symmetric or orthogonal cells), degrees vs radians, fs vs ps vs s, Angstrom vs m, frame index vs time, inclusive vs exclusive interval ends, 0- vs 1-based indices, population vs sample statistics.
  * INPUT NORMALISATION: inputs that are valid but not in canonical form - coordinates outside [0,1), unsorted / duplicated / oxidation-state-decorated species, labels that are None or contain separators, site structures that carry extra site properties, numpy scalar types (np.int64, np.float32) or bools where Python numbers are usual, tuples / arrays where lists are usual, Lattice vs 3x3 array, negative or zero-valued optional arguments that are falsy.
  * ERROR AND EDGE PATHS: a documented exception swallowed and replaced by a default, an `except` clause broadened, a warning path that continues with a wrong value, a result for an empty / single-element selection.""",
 'D': """The verification effort you are helping to evaluate is based on property-based testing: random and small exhaustive generators of inputs and call sequences, checked against brute-force oracles. Such an approach is weak exactly where a fault is confined to a NARROW REGION of the input space that a generator is unlikely to hit unless it was built to aim there. Aim your changes at such regions (pick whichever fit this property best):
  * a specific magic size or count (exactly N frames / atoms / sites / jumps / voxels, a count that is a prime, a power of two plus one, a multiple of an internal block length you introduce, more than 2**15 or 2**16 of something),
  * a specific numeric coincidence (two values exactly equal, a value exactly on a threshold, exactly 0.5 or 1.0, a denormal or huge magnitude, a negative zero, an integer-valued float),
  * a deep or rare state (the k-th call, the second object of a kind in the process, an object derived three steps away from the original, an argument combination nobody uses together),
  * a rare structural configuration (all atoms on one site, a site nobody visits between two visited ones, an atom that never moves, identical labels, a cell with two equal edges, an empty selection in the middle of a pipeline).
  The change must still look like something a maintainer could plausibly write (an optimisation with a block size, a fast path, a special case, a cache), not an artificial trap such as `if n == 1234: return wrong`.""",
}[focus]
prev_txt = ('\n\nEarlier helpers already produced the following changes for this property. Do NOT repeat these ideas or close variants of them (same line of code, same mechanism); find different ones:\n' + '\n'.join(prev)) if prev else ''
print(f"""You are helping to evaluate a verification effort for the open-source Python library GEMDAT (analysis of molecular-dynamics trajectories for ion diffusion, built on pymatgen). You have your own scratch git worktree of the repository at {wt} (source under {wt}/src/gemdat, tests under {wt}/tests). Work ONLY inside {wt} (and, for temporary files, {wt}/.scratch). Do not read or touch /repo, /verif or any other directory; do not commit anything and NEVER use `git stash` (the stash is shared with other people's worktrees of the same repository): switch between patched and unpatched states only with `git diff > file`, `git checkout -- .` and `git apply file`.

This semantic property of GEMDAT is supposed to hold:

  Title: {p['title']}
  Statement: {p['statement']}
  Quantified over: {p['quantifier']['text']}

Your task: produce {n} DIFFERENT, realistic source changes (bugs a maintainer could plausibly introduce during a refactor, optimisation, feature addition or "clean-up") to the library code under {wt}/src/gemdat, each of which BREAKS this property for some valid input or call sequence inside the quantified domain, while the code still imports and the existing offline test suite still passes exactly as before. The changes must need something specific to manifest - NOT changes that any ordinary use would expose at once, and not changes that simply raise exceptions everywhere. Each change should be small (a few lines, possibly in two cooperating places) and touch only library source files (not tests). Read the relevant source first so that the change fits the code as it is.

{FOCUS}{prev_txt}

How to run things (the package is pure Python; no build step):
  - run python against your tree:  cd {wt} && PYTHONPATH={wt}/src /venv/bin/python your_script.py
  - run the existing test suite:   cd {wt} && PYTHONPATH={wt}/src /venv/bin/python -m pytest -q -p no:cacheprovider --timeout=900 --continue-on-collection-errors 2>&1 | tail -n 50
    On the unmodified tree exactly 66 tests pass and 40 fail or error (the failing ones need data files/network that are absent; ignore them). With your change applied the SAME 66 tests must still pass (compare the list of passing test ids, e.g. with `-rA` or `--junitxml`).
  - There is no network access. Do not install anything.

For each change i = 1..{n} deliver, in {wt}/.scratch/change_i/ :
  1. patch.diff  - produced with `git -C {wt} diff` (relative to the unmodified HEAD) containing ONLY that change (reset the tree with `git -C {wt} checkout -- .` between changes so that the diffs are independent).
  2. demo.py     - a small self-contained script (no pytest needed, no data files; build trajectories/structures in memory with numpy/pymatgen) that exits 0 and prints PASS on the unmodified tree and exits 1 and prints FAIL when the patch is applied. It must demonstrate a violation of the property AS STATED above (not merely a difference from the old output), e.g. by comparing with a brute-force computation of what the statement demands; the input it uses must lie inside the quantified domain given above.
  3. notes.md    - 5-10 lines, the first line a one-line title of the change: what the change is, why it breaks the property, what is needed for it to manifest, and confirmation (with the numbers you saw) that the 66 baseline tests still pass with the patch and that demo.py passes without / fails with the patch.

Verify all of this yourself by actually running it. Leave the worktree in the UNMODIFIED state (git -C {wt} checkout -- .) when you finish; the .scratch directory stays. In your final answer list the changes with one line each.""")
