#!/opt/veriftools/pyvenv/bin/python
import json, sys, glob, jsonschema
ok = True
try:
    jsonschema.validate(json.load(open('/verif/MANIFEST.json')), json.load(open('/root/.vp/MANIFEST.schema.json')))
    print('MANIFEST valid')
except Exception as e:
    ok = False; print('MANIFEST INVALID', e)
sch = json.load(open('/root/.vp/EVIDENCE.schema.json'))
for f in sorted(glob.glob('/verif/evidence/*.json')):
    try:
        jsonschema.validate(json.load(open(f)), sch)
    except Exception as e:
        ok = False; print('EVIDENCE INVALID', f, str(e)[:300])
print('evidence files:', len(glob.glob('/verif/evidence/*.json')))
sys.exit(0 if ok else 1)
