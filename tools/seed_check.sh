#!/bin/bash
# tools/seed_check.sh <seed-name> <PROPERTY-ID> [check args] : apply seeded/<seed-name>/patch.diff to a fresh scratch worktree and run one check against it
# (quick experiment while strengthening; the recorded result comes from tools/seed_eval.sh)
name="$1"; pid="$2"; shift 2
wt=/tmp/sv/q_$name
mkdir -p /tmp/sv; git -C /repo worktree remove --force "$wt" 2>/dev/null; rm -rf "$wt"
git -C /repo worktree add --detach "$wt" HEAD >/dev/null 2>&1 || { echo "worktree failed"; exit 2; }
trap 'git -C /repo worktree remove --force "$wt" 2>/dev/null; rm -rf "$wt"' EXIT
git -C "$wt" apply /verif/seeded/$name/patch.diff || exit 3
VERIF_REPO="$wt" /verif/check "$pid" --tier quick --no-evidence "$@" 2>&1 | grep -E "violated|VIOLATION|^OK|HARNESS|Error" | cut -c1-400
