#!/bin/bash
# tools/sweep_thorough.sh <scale> [seed] : every registered check in the thorough tier (sizes of the thorough tier, example counts x scale) on the unchanged tree
cd "$(dirname "$0")/.."
for id in C02 C03 C04 C05 C06 C07 C08 C09 C10 C11 C12 C13 C14 C15 C16 C17 C18 C19 C20 C01; do
  s=$(date +%s); out=$(VERIF_SEED=${2:-0} ./check $id --tier thorough --scale $1 --no-evidence 2>&1); rc=$?; e=$(date +%s)
  echo "thorough scale=$1 $id exit=$rc $((e-s))s $(echo "$out" | grep -E 'violated|HARNESS' | head -2 | cut -c1-300)"
done
