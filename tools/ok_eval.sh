#!/bin/bash
# tools/ok_eval.sh <dir with patch.diff + demo.py> <PROPERTY-ID> <name>
# A property-PRESERVING refactoring: confirm demo passes with and without the patch and the 66 tests stay green, then run the
# quick check of the property (and of every other property with --all) against the patched scratch tree: it must stay quiet.
src="$1"; pid="$2"; name="$3"; shift 3
V=/verif; wt=/tmp/sv/$name
mkdir -p /tmp/sv; git -C /repo worktree remove --force "$wt" 2>/dev/null; rm -rf "$wt"
git -C /repo worktree add --detach "$wt" HEAD >/dev/null 2>&1 || { echo "worktree failed"; exit 2; }
trap 'git -C /repo worktree remove --force "$wt" 2>/dev/null; rm -rf "$wt"' EXIT
sed "s#/tmp/wt/[A-Za-z0-9_]*#$wt#g" "$src/demo.py" > /tmp/sv/$name.demo.py
run_demo() { (cd "$wt" && PYTHONPATH="$wt/src" timeout 900 /venv/bin/python /tmp/sv/$name.demo.py >/tmp/sv/$name.demo.out 2>&1; echo $?); }
d0=$(run_demo)
if ! git -C "$wt" apply "$src/patch.diff" 2>/tmp/sv/$name.apply.err; then echo "RESULT name=$name patch_applies=no"; exit 3; fi
$V/tools/suite.py "$wt" >/tmp/sv/$name.suite.out 2>&1; s=$?
d1=$(run_demo)
out=""; worst=0
for p in $pid "$@"; do
  VERIF_REPO="$wt" $V/check "$p" --tier quick --no-evidence >/tmp/sv/$name.$p.check.out 2>&1; c=$?
  out="$out $p=$c"; [ $c -gt $worst ] && worst=$c
  [ $c -ne 0 ] && grep -m1 -o 'violated clause.*' /tmp/sv/$name.$p.check.out | cut -c1-260
done
echo "RESULT name=$name property=$pid demo_unpatched=$d0 suite_with_patch=$s demo_patched=$d1 checks:$out"
mkdir -p $V/seeded_ok/$name
cp "$src/patch.diff" $V/seeded_ok/$name/; cp "$src/demo.py" $V/seeded_ok/$name/; [ -f "$src/notes.md" ] && cp "$src/notes.md" $V/seeded_ok/$name/
/venv/bin/python - "$name" "$pid" "$d0" "$s" "$d1" "$out" <<'PY'
import json, sys
name, pid, d0, s, d1, out = sys.argv[1:7]
res = dict(x.split('=') for x in out.split())
json.dump({'name': name, 'property': pid, 'kind': 'property-preserving refactoring (the checks must stay quiet)',
           'confirmed': {'demo_exit_unpatched': int(d0), 'baseline_66_pass_with_patch': s == '0', 'demo_exit_patched': int(d1)},
           'valid': d0 == '0' and s == '0' and d1 == '0', 'check_exit_codes': {k: int(v) for k, v in res.items()},
           'quiet': all(v == '0' for v in res.values())}, open(f'/verif/seeded_ok/{name}/meta.json', 'w'), indent=1)
PY
