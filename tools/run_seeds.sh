#!/bin/bash
# tools/run_seeds.sh <round-tag e.g. r5> <ID>... : evaluate /tmp/wt/<ID>/.scratch/change_{1,2,3} as seeds <ID>-<round>-<i>
tag="$1"; shift
for id in "$@"; do for i in 1 2 3; do [ -d /tmp/wt/$id/.scratch/change_$i ] && /verif/tools/seed_eval.sh /tmp/wt/$id/.scratch/change_$i $id $id-$tag-$i 2>&1 | tail -1 | cut -c1-400; done; done
