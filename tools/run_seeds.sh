#!/bin/bash
for id in "$@"; do for i in 1 2; do [ -d /tmp/wt/$id/.scratch/change_$i ] && /verif/tools/seed_eval.sh /tmp/wt/$id/.scratch/change_$i $id $id-r4-$i 2>&1 | tail -1 | cut -c1-400; done; done
