#!/venv/bin/python
"""Run the repository's pinned offline suite against a tree and compare with BASELINE.json.

usage: tools/suite.py [tree]      (default /repo)
exit 0 iff every stable_pass test of /root/.vp/BASELINE.json passes.
"""
import json, os, subprocess, sys, tempfile
import xml.etree.ElementTree as ET

tree = os.path.abspath(sys.argv[1] if len(sys.argv) > 1 else '/repo')
base = json.load(open('/root/.vp/BASELINE.json'))
with tempfile.TemporaryDirectory() as d:
    xml = os.path.join(d, 'r.xml')
    env = dict(os.environ, PYTHONPATH=os.path.join(tree, 'src'))
    for k in ('GEMDAT_VERIF',):
        env.pop(k, None)
    p = subprocess.run(
        ['/venv/bin/python', '-m', 'pytest', '-ra', '-q', '-p', 'no:cacheprovider', '--timeout=900',
         '--continue-on-collection-errors', f'--junitxml={xml}'],
        cwd=tree, env=env, stdout=subprocess.PIPE, stderr=subprocess.STDOUT, text=True)
    passed = set()
    for tc in ET.parse(xml).getroot().iter('testcase'):
        if not any(c.tag in ('failure', 'error', 'skipped') for c in tc):
            passed.add(f"{tc.get('classname')}::{tc.get('name')}")
missing = [t for t in base['stable_pass'] if t not in passed]
print(f'tree={tree} passed={len(passed)} stable_ok={len(base["stable_pass"]) - len(missing)}/{len(base["stable_pass"])}')
for m in missing:
    print('  NOT PASSING:', m)
sys.exit(1 if missing else 0)
