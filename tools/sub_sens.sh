#!/bin/bash
# tools/sub_sens.sh <PID> <sub[,sub]>  -- which stored breaking seeds of a property does one sub-check catch on its own?
pid="$1"; sub="$2"; mkdir -p /tmp/sv
for s in $(ls /verif/seeded | grep "^$pid"); do
  wt=/tmp/sv/ss_$s; git -C /repo worktree remove --force $wt 2>/dev/null; rm -rf $wt
  git -C /repo worktree add --detach $wt HEAD >/dev/null 2>&1
  if git -C $wt apply /verif/seeded/$s/patch.diff 2>/dev/null; then
    n=$(VERIF_REPO=$wt /verif/check $pid --only $sub --no-evidence --no-regressions 2>&1 | grep -c '^VIOLATION')
    echo "$s caught=$n"
  else echo "$s patch-does-not-apply"; fi
  git -C /repo worktree remove --force $wt; rm -rf $wt
done
