#!/bin/bash
# tools/reeval_seeds.sh <PROPERTY-ID>... : re-run every stored seed of the given properties against the current checks
for pid in "$@"; do for d in /verif/seeded/$pid-*; do [ -f $d/patch.diff ] || continue; n=$(basename $d)
  cp -r $d /tmp/sv/src_$n; /verif/tools/seed_eval.sh /tmp/sv/src_$n $pid $n 2>&1 | tail -1 | cut -c1-220; rm -rf /tmp/sv/src_$n; done; done
